#!/bin/bash
# tools/sweep.sh "C01 C02 ..." "1 2 3" [tier]  -> /tmp/sweep.log (one line per run + new signatures); keeps out/ reproducers per seed in /tmp/sweep-out/
checks="$1"; seeds="$2"; tier="${3:-quick}"
mkdir -p /tmp/sweep-out
for c in $checks; do for s in $seeds; do
  t0=$(date +%s)
  VERIF_SEED=$s ./run $c $tier > /tmp/sweep-$c-$s.log 2>&1; rc=$?
  t1=$(date +%s)
  echo "$c seed=$s rc=$rc wall=$((t1-t0))s $(grep -c '^VIOLATION' /tmp/sweep-$c-$s.log) viol | $(grep "^$c $tier" /tmp/sweep-$c-$s.log | cut -c1-260)" >> /tmp/sweep.log
  grep -A1 '^VIOLATION' /tmp/sweep-$c-$s.log | grep 'sig=' | cut -c1-330 >> /tmp/sweep.log
  grep -A8 'HARNESS-ERROR' /tmp/sweep-$c-$s.log | head -12 >> /tmp/sweep.log
  if [ -d out/$c ] && ls out/$c/viol-* >/dev/null 2>&1; then mkdir -p /tmp/sweep-out/$c-$s; cp out/$c/viol-* /tmp/sweep-out/$c-$s/; fi
done; done
