#!/bin/bash
# tools/thorough_sweep.sh "C31 C29 ..."  -> runs the thorough tier at seed 1, marks verified ones, logs to /tmp/thorough.log
cd /verif
for c in $1; do
  t0=$(date +%s)
  VERIF_SEED=1 ./run $c thorough > /tmp/thorough-$c.log 2>&1; rc=$?
  t1=$(date +%s)
  echo "$c thorough rc=$rc wall=$((t1-t0))s | $(grep "^$c thorough" /tmp/thorough-$c.log | cut -c1-220)" >> /tmp/thorough.log
  grep -A1 '^VIOLATION' /tmp/thorough-$c.log | grep 'sig=' | cut -c1-300 >> /tmp/thorough.log
  if [ $rc -eq 0 ] && ! grep -q "budget hit" /tmp/thorough-$c.log; then /venv/bin/python tools/mark_thorough.py $c; fi
  if [ -d out/$c ] && ls out/$c/viol-* >/dev/null 2>&1; then mkdir -p /tmp/thorough-out/$c; cp out/$c/viol-* /tmp/thorough-out/$c/; fi
done
