"""Regenerates MANIFEST.json from checks/*.py metadata + tools/manifest_meta.json; validates against the schema."""
import json, os, sys, importlib
sys.path.insert(0, "/verif")
sys.path.insert(0, "/repo/src"); sys.path.insert(0, "/verif/.deps")
meta = json.load(open("/verif/tools/manifest_meta.json"))
props = [json.loads(l) for l in open("/verif/properties.jsonl")]
checks = []
na = []
for p in props:
    pid = p["id"]
    mp = f"/verif/tools/meta/{pid}.json"
    m = json.load(open(mp)) if os.path.exists(mp) else None
    if not m or not os.path.exists(f"/verif/checks/{pid}.py"):
        na.append({"property_id": pid, "reason": meta.get("not_applicable", {}).get(pid, "check not built yet in this round (work in progress; design in DESIGN.md section 3)")})
        continue
    mod = importlib.import_module("checks." + pid)
    c = mod.CHECK
    checks.append({
        "property_id": pid,
        "quick_cmd": f"./run {pid} quick",
        **({"thorough_cmd": f"./run {pid} thorough"} if m.get("thorough_verified") else {}),
        "evidence_file": f"/verif/evidence/{pid}.json",
        "replay_cmd_template": f"./run {pid} --replay {{path}}",
        "engine": "vlib",
        "level_claimed": {"category": c.level, "text": m["text"], "design_ref": f"DESIGN.md section 3, {pid}"},
        "level_note": m["note"],
        "technique": m["technique"],
    })
man = {
    "version": 1,
    "setup_cmd": "./setup.sh",
    "hooks": {
        "guard": "SQLFLUFF_VERIF",
        "enable": "no source hooks: checks import /repo/src directly (PYTHONPATH) and instrument from outside (monkeypatching inside the check process, sitecustomize on PYTHONPATH of CLI subprocesses, strace fault injection)",
        "baseline_off_cmd": "cd /repo && /venv/bin/python -m pytest -ra -q -p no:cacheprovider --timeout=900 --continue-on-collection-errors",
        "source_commits": meta.get("hook_commits", []),
        "add_only": True,
    },
    "engines": [{"name": "vlib", "path": "/verif/vlib", "serves_properties": [c["property_id"] for c in checks],
                 "kind_free_text": "Hypothesis-driven property-based testing harness: 16 seeded shards, pinned corpus/enumeration tier, replay tier, signature-bucketed known findings, in-house delta-debugging minimiser"}],
    "checks": checks,
    "not_applicable": na,
    "notes": meta.get("notes", ""),
}
json.dump(man, open("/verif/MANIFEST.json", "w"), indent=1)
try:
    import jsonschema
    jsonschema.validate(man, json.load(open("/root/.vp/MANIFEST.schema.json")))
    print("manifest valid;", len(checks), "checks,", len(na), "not claimed")
except ImportError:
    print("jsonschema not importable; wrote manifest unvalidated")
