import json, sys, glob
sys.path.insert(0, "/verif/.deps")
import jsonschema
sch = json.load(open("/root/.vp/EVIDENCE.schema.json"))
for f in sorted(glob.glob("/verif/evidence/*.json")):
    try:
        jsonschema.validate(json.load(open(f)), sch); print("ok", f)
    except Exception as e:
        print("INVALID", f, str(e)[:300])
