"""Rewrites the generated tables of DESIGN.md (between <!-- BEGIN:x --> / <!-- END:x --> markers) from
findings.d/, tools/meta/ and seeded/*/result.json."""
import glob, json, os, re
def findings_table():
    rows = ["| id | properties | status | what fails | reproducer |", "|---|---|---|---|---|"]
    c29 = []
    for f in sorted(glob.glob("/verif/findings.d/*.json")):
        for e in json.load(open(f))["findings"]:
            if e["id"].startswith("F-C29-"):
                c29.append(e); continue
            st = e["status"] + ((" " + e.get("commit", "")) if e["status"] == "fixed" else "")
            rows.append("| %s | %s | %s | %s | `%s` |" % (e["id"], ", ".join(e["properties"]), st, e["what"].replace("|", "\\|")[:330], e["reproducer"]))
    if c29:
        n = sum(len(e["match"]["ref"]) for e in c29)
        rows.append("| F-C29-<dialect> (%d entries) | C29 | open | %d grammar references in %d dialects do not resolve (listed per dialect in findings.d/C29.json); SQL reaching them raises RuntimeError | `replays/C29/kf-<dialect>.json` |" % (len(c29), n, len(c29)))
    return "\n".join(rows)
def sens_table():
    rows = ["| check | mutant / change | caught | note |", "|---|---|---|---|"]
    for f in sorted(glob.glob("/verif/tools/meta/*.json")):
        cid = os.path.basename(f)[:-5]
        for s in json.load(open(f)).get("sensitivity", []) or []:
            if isinstance(s, str):
                rows.append("| %s | %s | | |" % (cid, s[:200])); continue
            m = s.get("mutant") or s.get("what") or s.get("change") or s.get("name") or json.dumps(s)[:120]
            c = s.get("caught")
            c = "yes" if c is True else ("no" if c is False else str(c))
            note = s.get("note") or s.get("sig") or s.get("signatures") or s.get("how") or ""
            rows.append("| %s | %s | %s | %s |" % (cid, str(m).replace("|", "\\|")[:220], c, str(note).replace("|", "\\|")[:200]))
    return "\n".join(rows)
def seeded_table():
    rows = ["| seeded change | property | needs | demo (unchanged / patched) | check (tier) | caught | first signature |", "|---|---|---|---|---|---|---|"]
    for d in sorted(glob.glob("/verif/seeded/*")):
        mp, rp = d + "/meta.json", d + "/result.json"
        if not os.path.exists(mp): continue
        m = json.load(open(mp)); r = json.load(open(rp)) if os.path.exists(rp) else {}
        rows.append("| %s | %s | %s | %s / %s | %s | %s | %s |" % (os.path.basename(d), m.get("property"), str(m.get("needs", "")).replace("|", "\\|")[:260],
                    r.get("demo_unchanged_rc", "?"), r.get("demo_patched_rc", "?"), r.get("check_tier", "?"),
                    {True: "yes", False: "NO"}.get(r.get("caught"), "not run"), (r.get("signatures") or [""])[0].replace("|", "\\|")[:160]))
    return "\n".join(rows)
p = "/verif/DESIGN.md"; s = open(p).read()
for name, fn in (("findings", findings_table), ("sensitivity", sens_table), ("seeded", seeded_table)):
    b, e = "<!-- BEGIN:%s -->" % name, "<!-- END:%s -->" % name
    if b in s and e in s:
        s = s[:s.index(b) + len(b)] + "\n" + fn() + "\n" + s[s.index(e):]
open(p, "w").write(s)
print("tables regenerated")
