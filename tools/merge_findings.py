"""Builds known_findings.json (the committed list the checks read) from findings.d/*.json fragments."""
import glob, json, os
out = {"_comment": "Genuine defects of sqlfluff found by the checks on the unchanged tree. Committed; never written at run time. "
       "status=open: failures whose signature matches are counted, not raised; the pinned reproducer prints a KNOWN-FINDING line while it still fails. "
       "status=fixed: repaired by the named fix: commit in /repo; suppresses nothing, the reproducer is an ordinary regression case.",
       "findings": [], "fixed": []}
seen = set()
for f in sorted(glob.glob("/verif/findings.d/*.json")):
    for e in json.load(open(f))["findings"]:
        assert e["id"] not in seen, "duplicate finding id " + e["id"]
        seen.add(e["id"])
        for k in ("id", "properties", "status", "match", "what", "reproducer"):
            assert k in e, (e.get("id"), k)
        out["findings"].append(e)
        if e["status"] == "fixed":
            out["fixed"].append(e.get("fixed_line") or "fixed: property=%s %s %s" % (e["properties"][0], e.get("commit", "?"), e["what"]))
tmp = "/verif/known_findings.json.tmp%d" % os.getpid()
json.dump(out, open(tmp, "w"), indent=1)
os.replace(tmp, "/verif/known_findings.json")
print("known findings:", len(out["findings"]), "fixed:", len(out["fixed"]))
