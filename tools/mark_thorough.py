"""tools/mark_thorough.py Cnn [pinned]  -- record that the thorough tier of Cnn was run quiet on the unchanged tree
(sets thorough_verified in tools/meta/Cnn.json; with 'pinned' also notes that the larger pinned set was included)."""
import json, sys
cid = sys.argv[1]
p = f"/verif/tools/meta/{cid}.json"; m = json.load(open(p))
m["thorough_verified"] = True
if len(sys.argv) > 2:
    m["thorough_pinned_verified"] = True
json.dump(m, open(p, "w"), indent=1)
