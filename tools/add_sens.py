import json, sys
cid, mutant, caught, note = sys.argv[1], sys.argv[2], sys.argv[3] == "1", sys.argv[4] if len(sys.argv) > 4 else ""
p = f"/verif/tools/meta/{cid}.json"; m = json.load(open(p))
m.setdefault("sensitivity", [])
m["sensitivity"] = [e for e in m["sensitivity"] if e.get("mutant") != mutant] + [{"mutant": mutant, "caught": caught, "note": note}]
json.dump(m, open(p, "w"), indent=1)
