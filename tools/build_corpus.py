"""One-off: snapshot small fixtures from /repo/test into /verif/corpus (committed)."""
import glob, json, os, sys
import yaml
R = "/repo/test/fixtures"
out = "/verif/corpus"
os.makedirs(out + "/dialects", exist_ok=True)
n = 0
for d in sorted(os.listdir(R + "/dialects")):
    if not os.path.isdir(f"{R}/dialects/{d}"):
        continue
    rows = []
    for f in sorted(glob.glob(f"{R}/dialects/{d}/*.sql")):
        try:
            s = open(f, encoding="utf8", newline="").read()
        except Exception:
            continue
        if len(s) <= 1500:
            rows.append({"name": os.path.basename(f), "sql": s})
    with open(f"{out}/dialects/{d}.jsonl", "w") as fh:
        for r in rows:
            fh.write(json.dumps(r, ensure_ascii=True) + "\n")
    n += len(rows)
print("dialect fixtures", n)
# rule yaml cases
rows = []
for f in sorted(glob.glob(f"{R}/rules/std_rule_cases/*.yml")):
    y = yaml.safe_load(open(f))
    rule = y.pop("rule", os.path.basename(f)[:-4])
    for k, v in y.items():
        if not isinstance(v, dict):
            continue
        cfg = v.get("configs") or {}
        dialect = (cfg.get("core") or {}).get("dialect", "ansi")
        templater = (cfg.get("core") or {}).get("templater", None)
        for key in ("pass_str", "fail_str"):
            if key in v and isinstance(v[key], str) and len(v[key]) <= 1500:
                rows.append({"rule": rule, "name": k, "kind": key, "dialect": dialect,
                             "templater": templater, "sql": v[key], "configs": cfg})
with open(f"{out}/rule_cases.jsonl", "w") as fh:
    for r in rows:
        fh.write(json.dumps(r, ensure_ascii=True, default=str) + "\n")
print("rule cases", len(rows))
# templater fixtures (jinja)
rows = []
for f in sorted(glob.glob(f"{R}/templater/**/*.sql", recursive=True)):
    try:
        s = open(f, encoding="utf8", newline="").read()
    except Exception:
        continue
    if len(s) <= 2000:
        rows.append({"name": os.path.relpath(f, R + "/templater"), "sql": s})
with open(f"{out}/templater.jsonl", "w") as fh:
    for r in rows:
        fh.write(json.dumps(r) + "\n")
print("templater", len(rows))
