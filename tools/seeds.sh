#!/bin/bash
# tools/seeds.sh Cnn tier seed1 seed2 ...   -> summarises exit codes and new signatures per seed
id=$1; tier=$2; shift 2
for s in "$@"; do
  VERIF_SEED=$s ./run $id $tier > /tmp/verif-seeds-$id-$s.log 2>&1; rc=$?
  echo "seed=$s rc=$rc $(grep -c '^VIOLATION' /tmp/verif-seeds-$id-$s.log) violations; $(tail -1 /tmp/verif-seeds-$id-$s.log | cut -c1-250)"
  grep -A1 '^VIOLATION' /tmp/verif-seeds-$id-$s.log | grep 'sig=' | cut -c1-300
  grep -B2 -A12 'HARNESS-ERROR' /tmp/verif-seeds-$id-$s.log | head -40
done
