"""tools/mutant.py NAME CHECK[,CHECK...] -- apply tools/mutants/NAME.py (a script that edits files relative to cwd) in a
scratch worktree of /repo, run the quick tier of the checks against it, report rc, remove the worktree."""
import os, subprocess, sys, shutil, time
name, checks = sys.argv[1], sys.argv[2].split(",")
wt = f"/tmp/mut-{name}"
subprocess.run(["git", "-C", "/repo", "worktree", "remove", "--force", wt], capture_output=True)
subprocess.run(["git", "-C", "/repo", "worktree", "add", "--detach", wt, "HEAD"], check=True, capture_output=True)
try:
    subprocess.run(["/venv/bin/python", f"/verif/tools/mutants/{name}.py"], cwd=wt, check=True)
    d = subprocess.run(["git", "-C", wt, "diff", "--stat"], capture_output=True, text=True).stdout.strip().splitlines()
    print("mutant", name, "|", d[-1] if d else "NO DIFF")
    for c in checks:
        t = time.time()
        env = dict(os.environ, VERIF_REPO=wt, VERIF_NO_SHRINK="1")
        p = subprocess.run(["./run", c, "quick"], cwd="/verif", env=env, capture_output=True, text=True)
        sigs = [l.strip()[:230] for l in p.stdout.splitlines() if l.strip().startswith("sig=")]
        print(f"  {c}: rc={p.returncode} in {time.time()-t:.0f}s", "CAUGHT" if p.returncode == 1 else "MISSED" if p.returncode == 0 else "HARNESS", sigs[:2])
        if p.returncode == 2:
            print(p.stderr[-600:])
finally:
    subprocess.run(["git", "-C", "/repo", "worktree", "remove", "--force", wt], capture_output=True)
    subprocess.run(["git", "-C", "/verif", "checkout", "--", "evidence"], capture_output=True)
