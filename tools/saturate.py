"""tools/saturate.py Cnn tier seed... [--write PREFIX]
Runs the check at several seeds, accumulates new signatures (smallest reproducer each) and, with --write,
appends them as open findings (id PREFIX-<n>) + pinned reproducers.  Only for properties where every oracle
failure is by definition sqlfluff's fault (C04 crashes, C05 internal rule errors); entries are reviewed by hand."""
import json, os, subprocess, sys, glob, hashlib
args = sys.argv[1:]
write = None
if "--write" in args:
    i = args.index("--write"); write = args[i + 1]; args = args[:i] + args[i + 2:]
cid, tier, seeds = args[0], args[1], args[2:]
acc = {}
for s in seeds:
    env = dict(os.environ, VERIF_SEED=s)
    p = subprocess.run(["./run", cid, tier], cwd="/verif", env=env, capture_output=True, text=True)
    print("seed", s, "rc", p.returncode, p.stdout.strip().splitlines()[-1][:200] if p.stdout.strip() else p.stderr[-300:])
    for f in glob.glob(f"/verif/out/{cid}/viol-*.json"):
        r = json.load(open(f))
        k = json.dumps(r["sig"], sort_keys=True)
        size = len(json.dumps(r["case"]))
        if k not in acc or size < acc[k][0]:
            acc[k] = (size, r)
print(len(acc), "distinct new signatures")
for k, (size, r) in sorted(acc.items()):
    print(k, "|", r["detail"][:150], "|", repr(r["case"].get("sql", ""))[:100])
if write and acc:
    fp = f"/verif/findings.d/{cid}.json"
    data = json.load(open(fp)) if os.path.exists(fp) else {"findings": []}
    n = len(data["findings"])
    os.makedirs(f"/verif/replays/{cid}", exist_ok=True)
    for k, (size, r) in sorted(acc.items()):
        n += 1
        fid = f"{write}-{n}"
        rp = f"replays/{cid}/kf-{fid}.json"
        json.dump({"property": cid, "case": r["case"], "note": r["detail"]}, open("/verif/" + rp, "w"), indent=1)
        data["findings"].append({"id": fid, "properties": [cid], "status": "open", "match": r["sig"],
                                 "what": r["detail"][:160].replace("\n", " "), "reproducer": rp})
    json.dump(data, open(fp, "w"), indent=1)
    subprocess.run(["/venv/bin/python", "/verif/tools/merge_findings.py"])
