"""Copies finished seeded changes from /tmp/seeded_out/<ID>/ into /verif/seeded/<ID>/ (patch.diff, demo.py, meta.json)."""
import json, os, shutil, sys
src = "/tmp/seeded_out"
for sid in sorted(os.listdir(src)):
    d = os.path.join(src, sid)
    need = ["patch.diff", "demo.py", "meta.json"]
    if not all(os.path.exists(os.path.join(d, n)) for n in need):
        continue
    dst = os.path.join("/verif/seeded", sid)
    if os.path.exists(os.path.join(dst, "meta.json")):
        continue
    try:
        meta = json.load(open(os.path.join(d, "meta.json")))
    except Exception as e:
        print("bad meta", sid, e); continue
    if os.path.getsize(os.path.join(d, "patch.diff")) == 0:
        print("empty patch", sid); continue
    os.makedirs(dst, exist_ok=True)
    for n in need:
        shutil.copy(os.path.join(d, n), os.path.join(dst, n))
    meta.setdefault("breaks_property", meta.get("property"))
    meta["origin"] = "written by an independent sub-agent that was given only the property text and its own worktree of /repo"
    json.dump(meta, open(os.path.join(dst, "meta.json"), "w"), indent=1)
    print("ingested", sid, meta.get("property"))
