#!/bin/bash
# Runs the repository's own suite (parallel, junit) and reports stable-baseline tests that did not pass.
out=${1:-/tmp/repo-tests.xml}
cd /repo && /venv/bin/python -m pytest -q -p no:cacheprovider --timeout=900 --continue-on-collection-errors -n 12 --junitxml=$out >/tmp/repo-tests.log 2>&1
/venv/bin/python - $out <<'P'
import json, sys, xml.etree.ElementTree as ET
sp = set(json.load(open('/root/.vp/BASELINE.json'))['stable_pass'])
root = ET.parse(sys.argv[1]).getroot()
passed=set(); failed=set()
for tc in root.iter('testcase'):
    tid=(tc.get('classname') or '')+'::'+(tc.get('name') or '')
    if tc.find('failure') is not None or tc.find('error') is not None: failed.add(tid)
    elif tc.find('skipped') is not None: pass
    else: passed.add(tid)
passed-=failed
missing = sorted(sp-passed)
print('stable baseline tests:', len(sp), 'passed now:', len(sp&passed), 'NOT passing:', len(missing))
for m in missing[:40]: print('  ', m)
P
