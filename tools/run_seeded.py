"""tools/run_seeded.py ID[,ID...] [tier]  -- for each /verif/seeded/<ID>/ apply patch.diff in a scratch worktree of /repo,
(1) run its demo against the unchanged tree (must exit 0) and the patched tree (must exit != 0),
(2) run the property's check (quick by default) against the patched tree (VERIF_REPO) and record whether it was caught.
Results are written to seeded/<ID>/result.json."""
import json, os, subprocess, sys, time
ids = sys.argv[1].split(",")
tier = sys.argv[2] if len(sys.argv) > 2 else "quick"
for sid in ids:
    d = f"/verif/seeded/{sid}"
    meta = json.load(open(d + "/meta.json"))
    prop = meta["property"]
    wt = f"/tmp/seedrun-{sid}"
    subprocess.run(["git", "-C", "/repo", "worktree", "remove", "--force", wt], capture_output=True)
    subprocess.run(["git", "-C", "/repo", "worktree", "add", "--detach", wt, "HEAD"], check=True, capture_output=True)
    res = {"id": sid, "property": prop, "repo_head": subprocess.run(["git", "-C", "/repo", "rev-parse", "--short", "HEAD"], capture_output=True, text=True).stdout.strip()}
    try:
        ap = subprocess.run(["git", "-C", wt, "apply", d + "/patch.diff"], capture_output=True, text=True)
        res["patch_applies"] = ap.returncode == 0
        if ap.returncode != 0:
            res["apply_error"] = ap.stderr[-300:]
        else:
            demo = [f for f in os.listdir(d) if f.startswith("demo")][0]
            for name, tree in (("demo_unchanged_rc", "/repo"), ("demo_patched_rc", wt)):
                p = subprocess.run(["/venv/bin/python", os.path.join(d, demo)], cwd=d, capture_output=True, text=True,
                                   env=dict(os.environ, PYTHONPATH=tree + "/src", HOME="/tmp"), timeout=1800)
                res[name] = p.returncode
                if name == "demo_patched_rc":
                    res["demo_output"] = (p.stdout + p.stderr)[-300:]
            t = time.time()
            p = subprocess.run(["./run", prop, tier], cwd="/verif", capture_output=True, text=True,
                               env=dict(os.environ, VERIF_REPO=wt, VERIF_NO_SHRINK="1"))
            res["check_rc"] = p.returncode
            res["check_tier"] = tier
            res["check_wall_s"] = round(time.time() - t)
            res["caught"] = p.returncode == 1
            res["signatures"] = [l.strip()[:300] for l in p.stdout.splitlines() if l.strip().startswith("sig=")][:4]
            if p.returncode == 2:
                res["stderr"] = p.stderr[-400:]
    finally:
        subprocess.run(["git", "-C", "/repo", "worktree", "remove", "--force", wt], capture_output=True)
        subprocess.run(["git", "-C", "/verif", "checkout", "--", "evidence/%s.json" % prop], capture_output=True)
    json.dump(res, open(d + "/result.json", "w"), indent=1)
    print(sid, prop, "applies" if res.get("patch_applies") else "NO-APPLY", "demo", res.get("demo_unchanged_rc"), res.get("demo_patched_rc"),
          "check rc", res.get("check_rc"), "CAUGHT" if res.get("caught") else "MISSED", res.get("signatures", [])[:1])
