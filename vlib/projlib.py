"""Multi-file projects on disk + CLI subprocess runs with the schedule injector (C24, C34, C25).

Nothing here calls os.chdir.  Every CLI run is a real subprocess with cwd inside a directory that is unique to the
case (sqlfluff caches config and ignore files per path for the life of a process).  The injector
(/verif/hooks/sitecustomize.py) is put on PYTHONPATH of the subprocess only, and only when asked for.
"""
from __future__ import annotations

import json
import os
import shutil
import subprocess
import sys
import tempfile

VERIF = os.path.dirname(os.path.dirname(os.path.abspath(__file__)))
HOOKS = os.path.join(VERIF, "hooks")


def scratch_root():
    return os.environ.get("VERIF_SCRATCH") or tempfile.gettempdir()


def fresh_dir(prefix="proj-"):
    # realpath: discovery compares absolute paths textually, a symlinked scratch dir would be a harness artefact
    return os.path.realpath(tempfile.mkdtemp(prefix=prefix, dir=scratch_root()))


def write_tree(root, files):
    """files: {relative path: str (written as UTF-8, newlines untouched) | bytes}"""
    for rel, content in files.items():
        p = os.path.join(root, rel)
        os.makedirs(os.path.dirname(p), exist_ok=True)
        data = content if isinstance(content, bytes) else content.encode("utf-8")
        with open(p, "wb") as fh:
            fh.write(data)


def read_tree(root):
    out = {}
    for d, _, fs in os.walk(root):
        for f in fs:
            p = os.path.join(d, f)
            with open(p, "rb") as fh:
                out[os.path.relpath(p, root)] = fh.read()
    return out


def rmtree(path):
    shutil.rmtree(path, ignore_errors=True)


def run_cli(args, cwd, delays=None, schedlog=None, timeout=600, env_extra=None):
    """``python -m sqlfluff <args>`` with cwd.  -> (rc, stdout, stderr) as text.

    delays / schedlog switch the injector on (hooks dir prepended to PYTHONPATH of this subprocess only)."""
    env = dict(os.environ)
    env.pop("VERIF_DELAYS", None)
    env.pop("VERIF_SCHEDLOG", None)
    # Bytecode cache outside the repo (never written into /repo or the venv): the CLI and each of its spawned
    # workers otherwise recompile every sqlfluff module on start-up.  Keyed by source path + mtime + size, so a
    # mutated scratch copy of the repo (VERIF_REPO) gets its own entries.
    env.pop("PYTHONDONTWRITEBYTECODE", None)
    env["PYTHONPYCACHEPREFIX"] = os.path.join(scratch_root(), "pyc")
    if delays is not None or schedlog is not None:
        env["PYTHONPATH"] = HOOKS + os.pathsep + env.get("PYTHONPATH", "")
        if delays:
            env["VERIF_DELAYS"] = json.dumps(delays)
        if schedlog:
            env["VERIF_SCHEDLOG"] = schedlog
    if env_extra:
        env.update(env_extra)
    try:
        p = subprocess.run([sys.executable, "-m", "sqlfluff"] + list(args), cwd=cwd, input=b"", stdout=subprocess.PIPE,
                           stderr=subprocess.PIPE, env=env, timeout=timeout)
    except subprocess.TimeoutExpired as e:
        return -9, (e.stdout or b"").decode("utf-8", "replace"), (e.stderr or b"").decode("utf-8", "replace") + "\nTIMEOUT"
    return p.returncode, p.stdout.decode("utf-8", "replace"), p.stderr.decode("utf-8", "replace")


def read_schedlog(path):
    """-> list of (event, pid, what) in the order the events were written."""
    out = []
    if not path or not os.path.exists(path):
        return out
    with open(path, "r", encoding="utf-8", errors="replace") as fh:
        for line in fh:
            parts = line.rstrip("\n").split(" ", 2)
            if len(parts) == 3:
                out.append((parts[0], parts[1], parts[2]))
    return out


def json_records(stdout):
    """Records of ``lint --format json`` without the timings.  -> list of dicts, or None when stdout is not JSON."""
    try:
        data = json.loads(stdout)
    except ValueError:
        return None
    if not isinstance(data, list):
        return None
    out = []
    for rec in data:
        rec = dict(rec)
        rec.pop("timings", None)
        out.append(rec)
    return out


def is_traceback(stderr):
    return "Traceback (most recent call last)" in stderr
