"""Histories: a generated project is materialised in a fresh directory and a list of operations is played inside ONE
child python process (vlib/history_driver.py); the reference for a step is the same single operation in a FRESH
process.  Shared by C27 and C32.

Layout of a case directory (one per case, removed afterwards; sqlfluff caches config files per path per process):
    <case>/world/proj/...     the project; cwd of every child process
    <case>/world/home/...     $HOME (user config lives here: ~/.sqlfluff or ~/.config/sqlfluff/.sqlfluff)
    <case>/world/xdg/...      $XDG_CONFIG_HOME when the case uses it
    <case>/world/extra/...    the explicitly supplied config file (--config / extra_config_path)
    <case>/jobs/...           job and result files (not watched)
`world` is what the read-only oracle watches.
"""
from __future__ import annotations

import itertools
import json
import os
import shutil
import subprocess
import sys
import tempfile
from concurrent.futures import ThreadPoolExecutor

DRIVER = os.path.join(os.path.dirname(os.path.abspath(__file__)), "history_driver.py")


class World:
    def __init__(self, tree: dict, use_xdg: bool = False):
        base = os.environ.get("VERIF_SCRATCH") or tempfile.gettempdir()
        self.case_dir = tempfile.mkdtemp(prefix="hist-", dir=base)
        self.world = os.path.join(self.case_dir, "world")
        self.jobs = os.path.join(self.case_dir, "jobs")
        self.use_xdg = use_xdg
        for d in ("proj", "home", "extra"):
            os.makedirs(os.path.join(self.world, d))
        os.makedirs(self.jobs)
        for rel, content in sorted(tree.items()):
            p = os.path.join(self.world, rel)
            os.makedirs(os.path.dirname(p), exist_ok=True)
            with open(p, "w", encoding="utf8", newline="") as fh:
                fh.write(content)
        self._n = itertools.count(1)  # next() on itertools.count is atomic under the GIL

    @property
    def cwd(self):
        return os.path.join(self.world, "proj")

    def env(self):
        env = dict(os.environ)
        env["HOME"] = os.path.join(self.world, "home")
        env.pop("XDG_CONFIG_HOME", None)
        if self.use_xdg:
            env["XDG_CONFIG_HOME"] = os.path.join(self.world, "xdg")
        env["PYTHONDONTWRITEBYTECODE"] = "1"
        env["NO_COLOR"] = "1"
        return env

    def play(self, ops, probe_keys=(), timeout=1500):
        """Run all ops in ONE process; returns the list of step records (shorter when the process died)."""
        n = next(self._n)
        job = os.path.join(self.jobs, "job%d.json" % n)
        out = os.path.join(self.jobs, "out%d.jsonl" % n)
        with open(job, "w") as fh:
            json.dump({"world": self.world, "ops": list(ops), "out": out, "probe_keys": [list(k) for k in probe_keys]}, fh)
        try:
            p = subprocess.run([sys.executable, "-P", DRIVER, job], cwd=self.cwd, env=self.env(), stdin=subprocess.DEVNULL,
                               stdout=subprocess.PIPE, stderr=subprocess.PIPE, text=True, timeout=timeout)
            rc, err = p.returncode, p.stderr[-1500:]
        except subprocess.TimeoutExpired:
            rc, err = "timeout", "driver exceeded %ss" % timeout
        steps = []
        if os.path.exists(out):
            with open(out) as fh:
                for line in fh:
                    if line.strip():
                        steps.append(json.loads(line))
        return steps, rc, err

    def play_fresh(self, ops, probe_keys=(), workers=3):
        """Each op in its own fresh process (in parallel); returns one step record per op."""
        if not ops:
            return []
        with ThreadPoolExecutor(max_workers=workers) as ex:
            futs = [ex.submit(self.play, [op], probe_keys) for op in ops]
            res = []
            for f in futs:
                steps, rc, err = f.result()
                res.append(steps[0] if steps else
                           {"i": 0, "res": {"error": "TimeoutExpired" if rc == "timeout" else "driver-died", "msg": err[-300:],
                                            "frame": None}, "changed": []})
        return res

    def close(self):
        shutil.rmtree(self.case_dir, ignore_errors=True)


def infra(res) -> bool:
    """A step result that says nothing about sqlfluff: the machine was too busy (timeout) or the driver was killed."""
    return isinstance(res, dict) and res.get("error") in ("TimeoutExpired", "driver-died")


def op_key(op) -> str:
    return json.dumps(op, sort_keys=True)
