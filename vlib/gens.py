"""Shared generators (all randomness comes from Hypothesis)."""
from __future__ import annotations

import functools
import json
import os
import re

from hypothesis import strategies as st

VERIF = os.path.dirname(os.path.dirname(os.path.abspath(__file__)))


@functools.lru_cache(None)
def dialects():
    return sorted(f[:-6] for f in os.listdir(os.path.join(VERIF, "corpus", "dialects")) if f.endswith(".jsonl"))


@functools.lru_cache(None)
def corpus(dialect, maxsize=1500):
    rows = []
    with open(os.path.join(VERIF, "corpus", "dialects", dialect + ".jsonl")) as fh:
        for line in fh:
            r = json.loads(line)
            if len(r["sql"]) <= maxsize:
                rows.append(r)
    return rows


@functools.lru_cache(None)
def rule_cases():
    with open(os.path.join(VERIF, "corpus", "rule_cases.jsonl")) as fh:
        return [json.loads(l) for l in fh]


@functools.lru_cache(None)
def templater_corpus():
    with open(os.path.join(VERIF, "corpus", "templater.jsonl")) as fh:
        return [json.loads(l) for l in fh]


def corpus_slice(per_dialect, maxsize=1500, dialect_list=None, offset=0):
    """Deterministic slice: every k-th fixture of each dialect."""
    for d in dialect_list or dialects():
        rows = corpus(d, maxsize)
        if not rows:
            continue
        step = max(1, len(rows) // per_dialect)
        for r in rows[offset % step::step][:per_dialect]:
            yield {"dialect": d, "sql": r["sql"], "origin": r["name"]}


# --------------------------------------------------------------------------- mutation (G-mut)

INSERT_TOKENS = ["'", '"', "(", ")", "/*", "*/", "--", ";", ",", "`", "[", "]", "$$", "{", "}", "\\", "\x00", "\t",
                 "\r", "\n", " ", " ", "é", "\U0001F600", "é", "::", ".", "*", "%", "?", ":x", "@", "#", "~",
                 "||", "<>", "!=", "=", "-", "+"]
KEYWORDS = ["SELECT", "FROM", "WHERE", "JOIN", "ON", "AND", "CASE", "WHEN", "END", "AS", "WITH", "UNION",
            "(SELECT 1)", "GROUP BY", "ORDER BY", "NULL", "NOT", "IN", "BETWEEN", "DISTINCT", "OVER", "LIMIT"]
N_OPS = 10


def apply_mutation(s: str, ops) -> str:
    """ops: list of (kind, pos_fraction_per_mille, length, arg_index, extra)"""
    for kind, pos, ln, arg, extra in ops:
        if not s:
            s = "x"
        i = (pos * (len(s) + 1)) // 1000
        j = min(len(s), i + ln)
        if kind == 0:
            s = s[:i] + s[j:]
        elif kind == 1:
            s = s[:i] + INSERT_TOKENS[arg % len(INSERT_TOKENS)] + s[i:]
        elif kind == 2:
            s = s[:i] + s[i:j] * 2 + s[j:]
        elif kind == 3:
            toks = re.split(r"(\s+)", s)
            if len(toks) > 2:
                a = arg % len(toks)
                b = (arg * 7 + ln) % len(toks)
                toks[a], toks[b] = toks[b], toks[a]
            s = "".join(toks)
        elif kind == 4:
            s = s[:i]
        elif kind == 5:
            s = s[i:]
        elif kind == 6:
            s = s[:i] + KEYWORDS[arg % len(KEYWORDS)] + " " + s[i:]
        elif kind == 7:
            s = s[:i] + s[i:j].swapcase() + s[j:]
        elif kind == 8:
            s = s.replace(" ", ["  ", "\n", "\t", ""][arg % 4], 1 + ln % 3)
        elif kind == 9:
            s = s[:i] + extra + s[i:]
    return s


def mutation_ops(max_ops=3, kinds=None):
    kind = st.integers(0, N_OPS - 1) if kinds is None else st.sampled_from(kinds)
    op = st.tuples(kind, st.integers(0, 999), st.integers(1, 12), st.integers(0, 10_000),
                   st.text(alphabet=st.characters(blacklist_categories=("Cs",)), min_size=1, max_size=4))
    return st.lists(op, min_size=1, max_size=max_ops)


@st.composite
def corpus_case(draw, dialect_list=None, maxsize=1500, mutate=None, max_ops=3, kinds=None):
    """{dialect, sql, origin, mutated}; mutate: None = draw, True/False = fixed."""
    d = draw(st.sampled_from(dialect_list or dialects()))
    rows = corpus(d, maxsize)
    r = draw(st.sampled_from(rows))
    do_mut = draw(st.booleans()) if mutate is None else mutate
    sql = r["sql"]
    n = 0
    if do_mut:
        ops = draw(mutation_ops(max_ops, kinds))
        sql = apply_mutation(sql, ops)
        n = len(ops)
    return {"dialect": d, "sql": sql, "origin": r["name"], "mutated": n}


def fixed_mutants(n_per_dialect, maxsize=500, dialect_list=None, salt="m"):
    """A fixed (seed-independent) corpus of mutated fixtures: the mutation operators of entry i are derived from
    SHA-1(salt, dialect, i), so the set is the same in every run and can be saturated once."""
    import hashlib

    for d in dialect_list or dialects():
        rows = corpus(d, maxsize)
        if not rows:
            continue
        for i in range(n_per_dialect):
            h = hashlib.sha1(f"{salt}:{d}:{i}".encode()).digest()
            r = rows[int.from_bytes(h[0:4], "big") % len(rows)]
            nops = 1 + h[4] % 3
            ops = []
            for k in range(nops):
                b = h[5 + 4 * k: 9 + 4 * k]
                ops.append((b[0] % N_OPS, (b[1] * 256 + b[2]) % 1000, 1 + b[3] % 12, b[1] * 7 + b[2], chr(0x20 + b[3] % 0x5f) + chr(0xA0 + b[2] % 0x300)))
            yield {"dialect": d, "sql": apply_mutation(r["sql"], ops), "origin": r["name"], "mutated": nops}


SQLISH = "abcxyzSELCTFROM0123456789 \n\t'\"`()[],;.*-/+=<>!|&%$#@:?{}\\_~^"


def text_sql(max_size=200):
    """G-text: arbitrary unicode and a SQL-ish alphabet."""
    return st.one_of(
        st.text(alphabet=st.sampled_from(SQLISH), max_size=max_size),
        st.text(alphabet=st.characters(blacklist_categories=("Cs",)), max_size=max_size // 2),
        st.lists(st.sampled_from(INSERT_TOKENS + KEYWORDS + ["a", "b1", "1", "1.5e3", "'s'", '"q"', " ", "\n"]),
                 max_size=40).map("".join),
    )


@st.composite
def text_case(draw, dialect_list=None, max_size=200):
    return {"dialect": draw(st.sampled_from(dialect_list or dialects())), "sql": draw(text_sql(max_size)),
            "origin": "text", "mutated": 0}


# --------------------------------------------------------------------------- G-sql (valid sqlite/ansi queries)

T = {"t1": ["a", "b", "c"], "t2": ["a", "d"], "t3": ["k", "v"]}

DEFAULT_FEATURES = dict(distinct=False, noise=True, comments=True, setops=True, cte=True, subquery=True,
                        groupby=True, orderby=True, concat=True, upper_idents=True, quoted=False, multi_cte=False)


class SqlGen:
    """Constructive generator of executable queries over the fixed schema, with layout noise."""

    def __init__(self, rng, **features):
        self.rng = rng
        self.f = dict(DEFAULT_FEATURES)
        self.f.update(features)

    def kw(self, s):
        if not self.f["noise"]:
            return s
        r = self.rng.random()
        return s.lower() if r < 0.3 else (s.capitalize() if r < 0.35 else s)

    def ws(self):
        if not self.f["noise"]:
            return " "
        return self.rng.choice([" ", " ", " ", "  ", "\n", "\n    ", "\t", " \n"])

    def ident(self, s):
        if self.f["upper_idents"] and self.rng.random() < 0.15:
            return s.upper()
        if self.f["quoted"] and self.rng.random() < 0.1:
            return '"' + s + '"'
        return s

    def comment(self):
        if self.f["comments"] and self.rng.random() < 0.08:
            return self.rng.choice([" -- c1\n", " /* c2 */ ", "\n-- c3\n"])
        return ""

    def expr(self, cols, depth=0):
        rng = self.rng
        r = rng.random()
        if depth > 2 or r < 0.35:
            return self.ident(rng.choice(cols))
        if r < 0.45:
            return str(rng.randint(0, 5))
        if r < 0.5:
            return rng.choice(["'x'", "'It''s'", "NULL", "null"])
        if r < 0.6:
            return f"({self.expr(cols, depth + 1)})"
        if r < 0.72:
            ops = [" + ", "+", " - ", " * "] + ([" || "] if self.f["concat"] else [])
            return f"{self.expr(cols, depth + 1)}{rng.choice(ops)}{self.expr(cols, depth + 1)}"
        if r < 0.8:
            return f"{self.kw('COALESCE')}({self.expr(cols, depth + 1)}, {self.expr(cols, depth + 1)})"
        if r < 0.85:
            return f"{self.kw('IFNULL')}({self.expr(cols, depth + 1)},{self.expr(cols, depth + 1)})"
        if r < 0.92:
            return (f"{self.kw('CASE')} {self.kw('WHEN')} {self.cond(cols, depth + 1)} {self.kw('THEN')} "
                    f"{self.expr(cols, depth + 1)} {self.kw('ELSE')} {self.expr(cols, depth + 1)} {self.kw('END')}")
        if r < 0.96:
            return f"{self.kw('CAST')}({self.expr(cols, depth + 1)} {self.kw('AS')} {rng.choice(['INTEGER', 'TEXT', 'int'])})"
        return f"{rng.choice(['abs', 'ABS', 'length', 'upper'])}({self.expr(cols, depth + 1)})"

    def cond(self, cols, depth=0):
        rng = self.rng
        r = rng.random()
        a = self.expr(cols, depth + 1)
        b = self.expr(cols, depth + 1)
        if r < 0.4:
            return f"{a}{rng.choice([' = ', ' <> ', ' != ', ' < ', '>=', '='])}{b}"
        if r < 0.5:
            return f"{a} {self.kw('IS')} {self.kw('NULL')}"
        if r < 0.55:
            return f"{a} {self.kw('IS NOT NULL')}"
        if r < 0.65:
            return f"{a} {self.kw('IN')} (1, 2,3)"
        if r < 0.75 and depth < 2:
            return f"({self.cond(cols, depth + 1)} {self.kw(rng.choice(['AND', 'OR']))} {self.cond(cols, depth + 1)})"
        if r < 0.85 and depth < 2:
            return f"{self.cond(cols, depth + 1)} {self.kw(rng.choice(['AND', 'OR']))} {self.cond(cols, depth + 1)}"
        if r < 0.9:
            return f"{self.kw('NOT')} {a} = {b}"
        return f"{a} {self.kw('BETWEEN')} 0 {self.kw('AND')} 3"

    def select(self, depth=0):
        rng = self.rng
        t = rng.choice(list(T))
        alias = rng.choice([None, None, "x", "tt"])
        cols = list(T[t])
        q = alias or t
        qcols = [f"{q}.{c}" for c in cols] if rng.random() < 0.4 else cols
        frm = f"{t}" + (f"{rng.choice([' AS ', ' ']) if self.f['noise'] else ' AS '}{alias}" if alias else "")
        join = ""
        if rng.random() < 0.3 and depth < 2:
            t2 = rng.choice([x for x in T if x != t])
            a2 = rng.choice(["y", "j"])
            jc1 = rng.choice(T[t])
            jc2 = rng.choice(T[t2])
            join = (f"{self.ws()}{self.kw(rng.choice(['JOIN', 'INNER JOIN', 'LEFT JOIN']))} {t2} {self.kw('AS')} {a2} "
                    f"{self.kw('ON')} {q}.{jc1} = {a2}.{jc2}")
            qcols = [f"{q}.{c}" for c in cols] + [f"{a2}.{c}" for c in T[t2]]
        elif self.f["subquery"] and rng.random() < 0.15 and depth < 2:
            sub = self.select(depth + 1)
            if sub["names"]:
                frm = f"({sub['sql']}) {self.kw('AS')} sq"
                qcols = sub["names"]
                q = "sq"
        n = rng.randint(1, 3)
        items = []
        names = []
        for i in range(n):
            e = self.expr(qcols)
            if rng.random() < 0.5:
                nm = f"c{i}"
                items.append(f"{e}{rng.choice([' AS ', ' as ', ' ']) if self.f['noise'] else ' AS '}{nm}")
                names.append(nm)
            else:
                items.append(e)
        sep = rng.choice([", ", ",", " ,", "\n    , ", ",\n    "]) if self.f["noise"] else ", "
        distinct = ""
        if self.f["distinct"] and rng.random() < 0.2:
            distinct = self.kw("DISTINCT") + self.ws()
        s = (f"{self.kw('SELECT')}{self.ws()}{distinct}{sep.join(items)}{self.comment()}{self.ws()}"
             f"{self.kw('FROM')} {frm}{join}")
        if rng.random() < 0.5:
            s += f"{self.ws()}{self.kw('WHERE')} {self.cond(qcols)}"
        if self.f["groupby"] and rng.random() < 0.15:
            g = rng.choice(qcols)
            s = (f"{self.kw('SELECT')} {g}, {self.kw('COUNT')}(*){rng.choice([' AS n', ' n', ''])}{self.ws()}"
                 f"{self.kw('FROM')} {frm}{join}{self.ws()}{self.kw('GROUP BY')} {g}")
            names = ["n"]
        elif self.f["orderby"] and rng.random() < 0.15 and depth == 0:
            s += f"{self.ws()}{self.kw('ORDER BY')} 1{rng.choice(['', ' DESC', ' asc'])}"
        return {"sql": s, "names": names}

    def query(self):
        rng = self.rng
        r = rng.random()
        if self.f["setops"] and r < 0.15:
            return (f"{self.kw('SELECT')} a {self.kw('FROM')} t1{self.ws()}"
                    f"{self.kw(rng.choice(['UNION', 'UNION ALL', 'UNION DISTINCT' if False else 'UNION']))}{self.ws()}"
                    f"{self.kw('SELECT')} a {self.kw('FROM')} t2")
        if self.f["cte"] and r < 0.3:
            s = self.select(1)
            if s["names"]:
                more = ""
                if self.f.get("multi_cte") and rng.random() < 0.5:
                    # a second / third CTE, on the same line or the next, optionally followed by comment-only lines
                    for i in range(rng.randint(1, 2)):
                        more += (rng.choice([", ", ",\n", "\n, ", ",\n    "]) + f"cte{i + 2} {self.kw('AS')} "
                                 f"({self.kw('SELECT')} a {self.kw('FROM')} t{1 + i % 2})")
                    more += rng.choice(["", "", "\n-- main query", "\n/* main query */", "\n\n-- m1\n-- m2"])
                return (f"{self.kw('WITH')} cte {self.kw('AS')} ({s['sql']}){more}{self.ws()}"
                        f"{self.kw('SELECT')} {rng.choice(s['names'])} {self.kw('FROM')} cte")
        return self.select()["sql"]

    def finish(self, s):
        if not self.f["noise"]:
            return s + "\n"
        return s + self.rng.choice([";", "", ";"]) + self.rng.choice(["\n", "", "\n\n", " \n"])


@st.composite
def gsql_case(draw, dialect="sqlite", **features):
    # uniform=True: random.Random seeded by a drawn integer (uniform choices, few duplicate examples);
    # default: st.randoms (kept for the checks whose baselines were established with it)
    rng = seeded_rng(draw) if features.pop("uniform", False) else draw(st.randoms(use_true_random=False))
    g = SqlGen(rng, **features)
    return {"dialect": dialect, "sql": g.finish(g.query()), "origin": "gsql", "mutated": 0}


# --------------------------------------------------------------------------- G-jinja

JCTX = {"a": 2, "b": 0, "x": "xx", "items": ["p", "q"], "flag": True, "name": "nm", "col_list": ["c1", "c2"], "n": 3,
        "empty": []}


class JinjaGen:
    def __init__(self, rng, profile="realistic", undefined=False, ws_control=True, loops=True, macros=True,
                 sets=True, raw=True, comments=True, control_bias=0.0, for_else=True):
        self.rng = rng
        # for_else: True = for/else on any iterable; "empty" = only on empty iterables; False = never
        # (a for/else over a non-empty iterable makes the templater skip the whole file)
        self.for_else = for_else
        # control_bias (C07): probability that an element is forced to be an if/for structure (default 0.0 draws
        # nothing extra from the rng, so the stream of every existing caller is unchanged)
        self.control_bias = control_bias
        self.profile = profile
        self.undefined = undefined
        self.ws_control = ws_control
        self.loops = loops
        self.macros = macros
        self.sets = sets
        self.raw = raw
        self.comments = comments

    def gen_expr(self):
        opts = ["a", "b", "x", "1", "a + 1", "items", "flag", "not flag", "a > 1", "name", '"lit"',
                'col_list|join(", ")', "x is defined", "[1,2]", "n"]
        if self.undefined:
            opts += ["undefined_v", "undefined_v.attr"]
        return self.rng.choice(opts)

    def tag(self, body, stmt=True):
        rng = self.rng
        if self.ws_control:
            l = rng.choice(["", "", "", "-", "+"]) if stmt else rng.choice(["", "", "", "-"])
            r = rng.choice(["", "", "", "-"])
        else:
            l = r = ""
        sp1 = rng.choice([" ", " ", "", "  "])
        sp2 = rng.choice([" ", " ", "", "  "])
        if stmt:
            return "{%" + l + sp1 + body + sp2 + r + "%}"
        return "{{" + l + sp1 + body + sp2 + r + "}}"

    def lit(self):
        rng = self.rng
        if self.profile == "realistic":
            return rng.choice(["SELECT\n    ", "a,\n    ", "b\n", "\n", " FROM t\n", "WHERE x = 1\n", "col ", "1 ",
                               " AS c\n", ",\n    ", " ", "\n\n", "-- c\n", " /* c */ ", "'s' ", " AND y = 2\n",
                               " x ", "select  a,b from  t\n", "    ", " + 1 "])
        return rng.choice(["SELECT ", "a", ", b", "\n", "  ", " FROM t", "\nWHERE x = 1", " + 1", "col", "1", " AS c",
                           ",\n    ", "(", ")", " ", "\n\n", "-- c\n", "/* c */", "'s'", " AND y", " x ", "{", "}", "%",
                           "#", "\r\n"])

    def block(self, depth=0):
        rng = self.rng
        out = []
        for _ in range(rng.randint(1, 4)):
            k = rng.random()
            if self.control_bias and depth <= 2 and rng.random() < self.control_bias:
                k = 0.5 + 0.28 * rng.random()
            if k < 0.35 or depth > 2:
                out.append(self.lit())
            elif k < 0.5:
                out.append(self.tag(self.gen_expr(), stmt=False))
            elif k < 0.65:
                conds = ["flag", "a > 1", "false", "true", "x is defined", "not flag"] + (
                    ["undefined_v"] if self.undefined else [])
                s = self.tag("if " + rng.choice(conds)) + self.block(depth + 1)
                for _ in range(rng.randint(0, 2)):
                    s += self.tag("elif " + rng.choice(["b", "a == 1", "true", "false"])) + self.block(depth + 1)
                if rng.random() < 0.5:
                    s += self.tag("else") + self.block(depth + 1)
                s += self.tag("endif")
                out.append(s)
            elif k < 0.78 and self.loops:
                it = rng.choice(["items", "[1,2]", "range(2)", "[]", "range(n)", "empty"])
                s = self.tag("for i in " + it)
                s += self.block(depth + 1)
                if rng.random() < 0.2 and (self.for_else is True or (self.for_else == "empty" and it in ("[]", "empty"))):
                    s += self.tag("else") + self.block(depth + 1)
                s += self.tag("endfor")
                out.append(s)
            elif k < 0.85 and self.sets:
                out.append(self.tag("set v = " + rng.choice(["1", '"x"', "a", "[1,2]"])))
            elif k < 0.9 and self.comments:
                out.append("{#" + rng.choice(["", "-"] if self.ws_control else [""]) + " comment "
                           + rng.choice(["", "-"] if self.ws_control else [""]) + "#}")
            elif k < 0.94 and self.sets:
                out.append(self.tag("set v") + self.block(depth + 1) + self.tag("endset"))
            elif k < 0.97 and self.macros:
                out.append(self.tag("macro m(p)") + self.block(depth + 1) + self.tag("endmacro")
                           + self.tag("m(1)", stmt=False))
            elif self.raw:
                out.append("{% raw %}" + rng.choice(["{{ x }}", "lit", "{% if %}"]) + "{% endraw %}")
            else:
                out.append(self.lit())
        return "".join(out)


@st.composite
def jinja_case(draw, profile=None, **kw):
    rng = seeded_rng(draw) if kw.pop("uniform", False) else draw(st.randoms(use_true_random=False))
    prof = profile or draw(st.sampled_from(["realistic", "adversarial"]))
    g = JinjaGen(rng, profile=prof, **kw)
    return {"dialect": "ansi", "templater": "jinja", "sql": g.block(), "context": dict(JCTX), "profile": prof,
            "undefined": bool(kw.get("undefined"))}


# --------------------------------------------------------------------------- G-pyfmt

PYCTX = {"a": "col_a", "b": 7, "tbl": "my_table", "w": "x y"}
PYDOT = {"foo.bar": "dotted_val", "a.b": "ab_val"}


@st.composite
def pyfmt_case(draw, allow_invalid=False):
    parts = []
    pieces_valid = ["SELECT ", " FROM ", "\n", "  ", "a", ", ", " WHERE x = 1", "{{", "}}", "{a}", "{b}", "{tbl}",
                    "{a!r}", "{b:>4}", "{a:<6}", "{w!s}", "{foo.bar}", "{a.b}", "{b:04d}", "-- c\n", "'s'", "{a:{b}}"]
    pieces_invalid = ["{", "}", "{}", "{0}", "{a!x}", "{missing}", "{a", "{b:zz}"]
    n = draw(st.integers(1, 8))
    invalid = False
    for _ in range(n):
        if allow_invalid and draw(st.integers(0, 9)) == 0:
            parts.append(draw(st.sampled_from(pieces_invalid)))
            invalid = True
        else:
            parts.append(draw(st.sampled_from(pieces_valid)))
    return {"dialect": "ansi", "templater": "python", "sql": "".join(parts), "context": dict(PYCTX), "dotted": dict(PYDOT),
            "maybe_invalid": invalid}


# --------------------------------------------------------------------------- G-ph (placeholder)

PH_EXAMPLES = {
    "colon": [":name", ":a", ":b1"],
    "colon_nospaces": [":name", ":a"],
    "colon_optional_quotes": [":name", ':"name"', ":'a'", ":a"],
    "numeric_colon": [":1", ":2", ":10"],
    "pyformat": ["%(name)s", "%(a)s"],
    "dollar": ["$name", "${name}", "$a", "${a}"],
    "dollar_surround": ["$name$", "$a$"],
    "flyway_var": ["${name}", "${flyway:database}", "${a}"],
    "question_mark": ["?"],
    "numeric_dollar": ["$1", "$2", "$10"],
    "percent": ["%s"],
    "ampersand": ["&name", "&{name}", "&a"],
}


@st.composite
def placeholder_case(draw, styles=None):
    style = draw(st.sampled_from(sorted(styles or PH_EXAMPLES)))
    lits = ["SELECT ", "a", " FROM ", "t", " WHERE x = ", "\n", " ", ", ", "tbl", "::", ":", "\\", "'q'", "(", ")", "1",
            "x", "-- c\n", "=", " AND "]
    n = draw(st.integers(1, 9))
    parts = []
    for _ in range(n):
        if draw(st.booleans()):
            parts.append(draw(st.sampled_from(PH_EXAMPLES[style])))
        else:
            parts.append(draw(st.sampled_from(lits)))
    with_values = draw(st.booleans())
    ctx = {}
    if with_values:
        ctx = {"name": "nval", "a": "aval", "b1": 5, "1": "one", "2": "two", "10": "ten", "flyway:database": "db"}
        keep = draw(st.sets(st.sampled_from(sorted(ctx)), max_size=len(ctx)))
        ctx = {k: v for k, v in ctx.items() if k in keep}
    return {"dialect": "ansi", "templater": "placeholder", "sql": "".join(parts), "param_style": style, "context": ctx}


# --------------------------------------------------------------------------- templates with fixable literals (C10, C30)

def seeded_rng(draw):
    """random.Random seeded with a Hypothesis-drawn integer.  Deterministic under VERIF_SEED like st.randoms(), but the
    procedural generators get uniformly distributed choices (st.randoms(use_true_random=False) draws every float
    from a boundary-biased strategy: about 70 % of the templates it produced were duplicates of earlier examples)."""
    import random as _random

    return _random.Random(draw(st.integers(0, 2 ** 62)))


FIX_RULE_SETS = ["all", "all", "all", "core", "layout", "capitalisation", "aliasing", "ambiguous", "convention",
                 "references", "structure", "jinja", "layout,jinja", "LT01", "LT02", "LT12,LT13"]

_SQL_KW = re.compile(r"\b(select|from|where|and|or|as|with|union all|union|join|left join|on|group by|order by|case|when|"
                     r"then|else|end|is|not|null|in|distinct|sum|count|coalesce)\b", re.I)


def sql_noise(rng, s, strength=0.5):
    """Layout / capitalisation noise on a literal SQL fragment (never touches template code)."""
    def kw(m):
        r = rng.random()
        w = m.group(0)
        if r < strength * 0.5:
            return w.upper()
        if r < strength * 0.7:
            return w.capitalize()
        return w
    s = _SQL_KW.sub(kw, s)
    out = []
    for ch in s:
        r = rng.random()
        if ch == " " and r < strength * 0.25:
            out.append(rng.choice(["  ", "   ", " \t", "    "]) if r < strength * 0.2 else "  ")
        elif ch == "," and r < strength * 0.5:
            out.append(rng.choice([" ,", ", ", " , ", ","]))
        elif ch == "=" and r < strength * 0.6 and out and out[-1][-1:] in (" ", "x", "y", "b", "a"):
            out.append(rng.choice(["=", " =", "= ", "  =  "]))
        elif ch == "\n" and r < strength * 0.3:
            out.append(rng.choice([" \n", "\n\n", "\n ", "\n   ", "\n\t", "  \n"]))
        else:
            out.append(ch)
    return "".join(out)


class FixableJinjaGen(JinjaGen):
    """JinjaGen whose literals violate layout / capitalisation / convention rules."""

    FIXABLE = ["select  a,b from  t\n", "SELECT a , b\n", " from T\n", "WHERE  x=1\n", "where y = 2  \n", "a as A,\n",
               "  b  AS  c\n", "Select\n  a\n ,b\n", "FROM t AS T1\n", " and  z<>3\n", " AND z != 3\n", "col+1 ",
               "sum( a ) ", "COUNT(*)\n", " , ", "select a from t  where a in (1,2 ,3)\n", "\tfrom t\n",
               "      a,\n", "group by a\n", "ORDER BY  1\n", "union\nselect 1\n", "coalesce(a,0) as q ,\n",
               "case when a=1 then 2 else 3 end\n", "select 1;\n", "   "]

    def lit(self):
        if self.rng.random() < 0.6:
            return self.rng.choice(self.FIXABLE)
        return JinjaGen.lit(self)


def _dbt_model(rng, g):
    """Hand-shaped dbt-like models; `g` supplies tag delimiters/padding, noise is applied to the literals only."""
    T_, E_ = (lambda b: g.tag(b, stmt=True)), (lambda b: g.tag(b, stmt=False))
    nz = lambda s: sql_noise(rng, s, rng.choice([0.2, 0.5, 0.9]))
    cmt = lambda: rng.choice(["", "", "{# note #}\n", "{#- note -#}", "  {# indented note #}\n", "-- sql comment\n"])
    shapes = []
    # column list built by a loop
    shapes.append(lambda: (
        E_("config(materialized='table')") + "\n" + cmt() + nz("with src as (\n    select * from ") + E_("ref('orders')")
        + nz("\n),\n\nfinal as (\n    select\n") + "        " + T_("for c in col_list") + "\n        " + E_("c")
        + T_("if not loop.last") + "," + T_("endif") + "\n        " + T_("endfor") + nz("\n    from src\n") + "    "
        + T_("if flag") + nz("\n    where a > 1 and b = 2\n") + "    " + T_("endif") + nz("\n)\n\nselect * from final\n")))
    # if / elif / else choosing the source table, expression in the select list
    shapes.append(lambda: (
        cmt() + T_("set threshold = 10") + "\n" + nz("select\n    a,\n    b + ") + E_("a") + nz(" as total,\n    ")
        + E_("name") + nz(",\n    coalesce(c, 0) as c\nfrom ") + T_("if a > 1") + " t1 " + T_("elif b") + " t2 " + T_("else")
        + " t3 " + T_("endif") + nz("\nwhere d >= ") + E_("n") + nz("\n  and e <> 5\n")))
    # union built by a loop
    shapes.append(lambda: (
        T_("for t in items") + "\n" + nz("select a, b, '") + E_("t") + nz("' as src from ") + E_("t") + "\n"
        + T_("if not loop.last") + nz("\nunion all\n") + T_("endif") + "\n" + T_("endfor") + "\n"))
    # macro + call + incremental filter
    shapes.append(lambda: (
        T_("macro cents(col)") + nz("round(") + E_("col") + nz(" / 100, 2)") + T_("endmacro") + "\n" + cmt()
        + nz("select\n    id,\n    ") + E_("cents('amount')") + nz(" as amount,\n    created_at\nfrom ")
        + E_("source('raw', 'payments')") + "\n" + T_("if is_incremental()") + nz("\nwhere created_at > (select max(created_at) from ")
        + E_("this") + ")\n" + T_("endif") + "\n"))
    # tags at the very start / end of lines and of the file, whitespace control
    shapes.append(lambda: (
        rng.choice(["", " ", "  ", "\n", "    "]) + E_(rng.choice(["a", "name", "x"])) + nz(" as first_col,\n")
        + rng.choice(["", "  ", "\t"]) + E_("b") + rng.choice(["", " ", "  "]) + nz(",c from t where x = ") + E_("n")
        + rng.choice(["", " ", "\n", "  \n\n"])))
    # comments between columns, set block
    shapes.append(lambda: (
        T_("set cols") + "a, b" + T_("endset") + "\n" + nz("select ") + E_("cols") + nz(",\n    ") + "{# first #}"
        + nz("\n    c,  ") + "{#- second -#}" + nz("\n    d\nfrom t\n") + cmt()))
    return rng.choice(shapes)()


def _struct_model(rng, g):
    """Grammar-directed template: SELECT items FROM source [WHERE conds], with tags wrapped around whole
    items / conditions so that most renderings parse."""
    T_, E_ = (lambda b: g.tag(b, stmt=True)), (lambda b: g.tag(b, stmt=False))
    nz = lambda s: sql_noise(rng, s, rng.choice([0.2, 0.5, 0.9]))
    nl = lambda: rng.choice(["\n    ", "\n    ", "\n", " ", "\n  ", "\n        "])
    cmt = lambda: rng.choice(["", "", "", "{# c #}", "{#- c -#}", " {# c #}", "-- c"])
    items = []
    for i in range(rng.randint(1, 4)):
        r = rng.random()
        col = rng.choice(["a", "b", "t.c", "a + 1", "coalesce(a, 0)", "sum(b)", "case when a = 1 then 2 else 3 end", "'s'"])
        alias = rng.choice(["", "", " as c%d" % i, " AS C%d" % i, " c%d" % i])
        if r < 0.35:
            items.append(nz(col + alias) + ",")
        elif r < 0.55:
            items.append(E_(rng.choice(["name", "x", "'col_' ~ n", "a", "col_list[0]"])) + nz(alias) + ",")
        elif r < 0.7:
            items.append(T_("if " + rng.choice(["flag", "a > 1", "false", "not flag"])) + nl() + nz(col + alias) + ","
                         + (nl() + T_("else") + nl() + nz("b" + alias) + "," if rng.random() < 0.4 else "")
                         + nl() + T_("endif"))
        elif r < 0.85:
            items.append(T_("for i in " + rng.choice(["[1,2]", "range(2)", "items", "empty"])) + nl()
                         + rng.choice(["col_", "a + ", "v"]) + E_("i" if rng.random() < 0.8 else "loop.index") + rng.choice(["", " as k", " AS K"])
                         + "," + nl() + T_("endfor"))
        else:
            items.append(T_("set v = " + rng.choice(["1", '"x"', "a"])) + nl() + nz(col + alias) + ",")
        if rng.random() < 0.15:
            items.append(cmt())
    items.append(nz(rng.choice(["z", "1 as one", "count(*) as n", "b"])))
    src = rng.choice([
        lambda: nz("t"), lambda: nz("t as t"), lambda: E_("ref('orders')"), lambda: E_("source('raw', 'x')") + nz(" as s"),
        lambda: T_("if flag") + " t1 " + T_("else") + " t2 " + T_("endif"), lambda: nz("db.") + E_("name"),
    ])()
    s = (cmt() + ("\n" if rng.random() < 0.5 else "") + nz("select") + nl() + nl().join(items) + nl().lstrip(" ") + nz("from ") + src)
    if rng.random() < 0.7:
        conds = []
        for j in range(rng.randint(1, 3)):
            c = rng.choice(["x = 1", "y <> 2", "z != 3", "a is null", "b in (1, 2)", "c >= "]) 
            if c.endswith("= "):
                c = nz(c) + E_(rng.choice(["n", "a", "b"]))
            else:
                c = nz(c)
            if j and rng.random() < 0.4:
                conds.append(T_("if " + rng.choice(["flag", "a > 1", "false"])) + nl() + nz("and ") + c + nl() + T_("endif"))
            elif j:
                conds.append(nz("and ") + c)
            else:
                conds.append(c)
        s += nl() + nz("where ") + nl().join(conds)
    if rng.random() < 0.3:
        tail = rng.choice(["group by 1", "order by 1", "limit "])
        s += nl() + nz(tail).rstrip(" ") + (" " + E_("n") if tail == "limit " else "")
    return s + rng.choice(["\n", "", "\n\n", ";\n", " \n", "\n" + cmt()])


def _param_model(rng, params):
    """SELECT ... FROM ... WHERE ... with parameters (python fields / placeholder params) in value, column and
    table position; noise on the literal parts only."""
    nz = lambda s: sql_noise(rng, s, rng.choice([0.2, 0.5, 0.9]))
    P = lambda: rng.choice(params)
    nl = lambda: rng.choice(["\n    ", "\n", " ", "  ", "\n  "])
    items = [rng.choice([nz("a"), nz("b as c1"), nz("sum(c) AS C2"), P(), P() + nz(" as p"), nz("a + ") + P(), nz("coalesce(a, ") + P() + ")"])
             for _ in range(rng.randint(1, 4))]
    s = rng.choice(["", "", " ", "\n", "  "]) + nz("select") + nl() + (nz(",") + nl()).join(items) + nl() + nz("from ") + rng.choice([nz("tbl"), nz("tbl as t"), P(), nz("db.") + P()])
    if rng.random() < 0.8:
        conds = [rng.choice([nz("x = ") + P(), nz("y <> ") + P(), P() + nz(" != 3"), nz("z in (") + P() + nz(", ") + P() + ")",
                             nz("a is null"), nz("b=") + P(), nz("c >= 1")]) for _ in range(rng.randint(1, 3))]
        s += nl() + nz("where ") + (nl() + nz("and ")).join(conds)
    if rng.random() < 0.2:
        s += nl() + nz("limit ") + P()
    return s + rng.choice(["\n", "", "\n\n", ";\n", " \n", "  "])


_FIX_PIECES = ["SELECT  ", "select ", " from ", " FROM  ", "\n", "   ", "a", ",b", " , ", " WHERE x=1", " where  y = ",
               " and z<>", "  ", "\t", "tbl", " AS  t", "sum( a )", " ;", "\n\n\n", "-- c\n", "'s'", "(", ")", " + ", "1"]


@st.composite
def template_fix_case(draw, templaters=("jinja", "jinja", "jinja", "python", "placeholder"), rule_sets=None):
    """Templated files whose literal parts have fixable violations, plus a rule selection (`rules`)."""
    rng = seeded_rng(draw)
    templater = draw(st.sampled_from(list(templaters)))
    rules = draw(st.sampled_from(list(rule_sets or FIX_RULE_SETS)))
    if templater == "jinja":
        g = FixableJinjaGen(rng, profile="realistic")
        kind = draw(st.sampled_from(["gen", "struct", "struct", "dbt"]))
        sql = g.block() if kind == "gen" else (_dbt_model(rng, g) if kind == "dbt" else _struct_model(rng, g))
        ctx = dict(JCTX)
        return {"dialect": "ansi", "templater": "jinja", "sql": sql, "context": ctx, "rules": rules, "shape": kind}
    if templater == "python":
        fields = ["{{", "}}", "{a}", "{b}", "{tbl}", "{a!r}", "{b:>4}", "{w!s}", "{foo.bar}", "{b:04d}"]
        if draw(st.integers(0, 3)):
            return {"dialect": "ansi", "templater": "python", "sql": _param_model(rng, fields[2:] + ["{{x}}"]),
                    "context": dict(PYCTX), "dotted": dict(PYDOT), "rules": rules, "shape": "struct"}
        parts = [draw(st.sampled_from(fields)) if draw(st.integers(0, 2)) == 0 else draw(st.sampled_from(_FIX_PIECES))
                 for _ in range(draw(st.integers(2, 10)))]
        return {"dialect": "ansi", "templater": "python", "sql": "".join(parts), "context": dict(PYCTX),
                "dotted": dict(PYDOT), "rules": rules, "shape": "pieces"}
    style = draw(st.sampled_from(sorted(PH_EXAMPLES)))
    ctx = {}
    if draw(st.booleans()):
        ctx = {"name": "nval", "a": "aval", "b1": 5, "1": "one", "2": "two", "10": "ten", "flyway:database": "db"}
    if draw(st.integers(0, 3)):
        return {"dialect": "ansi", "templater": "placeholder", "sql": _param_model(rng, PH_EXAMPLES[style]),
                "param_style": style, "context": ctx, "rules": rules, "shape": "struct"}
    parts = [draw(st.sampled_from(PH_EXAMPLES[style])) if draw(st.integers(0, 2)) == 0
             else draw(st.sampled_from(_FIX_PIECES)) for _ in range(draw(st.integers(2, 10)))]
    return {"dialect": "ansi", "templater": "placeholder", "sql": "".join(parts), "param_style": style, "context": ctx,
            "rules": rules, "shape": "pieces"}


# --------------------------------------------------------------------------- G-sql, extended (C16): executable sqlite
# queries containing the constructs the rewriting rules look for.  Separate class so that SqlGen's random stream (used
# by other checks) is untouched.

XFEATURES = dict(noise=True, comments=True, setops=True, cte=True, subquery=True, groupby=True, orderby=True, limit=True,
                 concat=True, upper_idents=True, quoted=True, mixed_qual=True, nested_case=True, case_shapes=True,
                 join_subquery=True, cross_join=True, where_join=True, using=True, self_alias=True, count1=True,
                 distinct=False, distinct_brackets=False, max_depth=2, ordinals=True,
                 negated_bool_case=True)


class SqlGenX:
    def __init__(self, rng, **features):
        self.rng = rng
        self.f = dict(XFEATURES)
        self.f.update(features)
        self.used = set()

    # -- lexical noise
    def kw(self, s):
        if not self.f["noise"]:
            return s
        r = self.rng.random()
        return s.lower() if r < 0.3 else (s.capitalize() if r < 0.35 else s)

    def ws(self):
        if not self.f["noise"]:
            return " "
        return self.rng.choice([" ", " ", " ", "  ", "\n", "\n    ", "\t", " \n"])

    def ident(self, s):
        r = self.rng.random()
        if self.f["upper_idents"] and r < 0.12:
            return s.upper()
        if self.f["quoted"] and r < 0.18:
            self.used.add("quoted")
            return '"' + s + '"'
        return s

    def comment(self):
        if self.f["comments"] and self.rng.random() < 0.08:
            return self.rng.choice([" -- c1\n", " /* c2 */ ", "\n-- c3\n"])
        return ""

    def comma(self):
        return self.rng.choice([", ", ", ", ",", " ,", "\n    , ", ",\n    "]) if self.f["noise"] else ", "

    # -- references: cols is a list of (qualifier or None, column, must_qualify)
    def ref(self, cols):
        q, c, must = self.rng.choice(cols)
        if q is None:
            return self.ident(c)
        if must:
            return f"{q}.{self.ident(c)}"
        mode = self.refmode
        if mode == "mixed":
            mode = self.rng.choice(["qual", "unqual"])
        return f"{q}.{self.ident(c)}" if mode == "qual" else self.ident(c)

    def expr(self, cols, depth=0):
        rng = self.rng
        r = rng.random()
        E = lambda: self.expr(cols, depth + 1)
        if depth > self.f["max_depth"] or r < 0.33:
            return self.ref(cols)
        if r < 0.42:
            return str(rng.randint(0, 5))
        if r < 0.47:
            return rng.choice(["'x'", "'It''s'", "NULL", "null", "''", "1.5"])
        if r < 0.56:
            self.used.add("brackets")
            return f"({E()})"
        if r < 0.68:
            ops = [" + ", "+", " - ", " * ", " - "] + ([" || ", "||"] if self.f["concat"] else [])
            return f"{E()}{rng.choice(ops)}{E()}"
        if r < 0.74:
            return f"{self.kw('COALESCE')}({E()}, {E()})"
        if r < 0.80:
            self.used.add("ifnull")
            return f"{self.kw('IFNULL')}({E()},{rng.choice(['', ' '])}{E()})"
        if r < 0.90:
            return self.case(cols, depth + 1)
        if r < 0.94:
            return f"{self.kw('CAST')}({E()} {self.kw('AS')} {rng.choice(['INTEGER', 'TEXT', 'int', 'REAL'])})"
        return f"{rng.choice(['abs', 'ABS', 'length', 'upper', 'Lower', 'typeof'])}({E()})"

    def case(self, cols, depth):
        rng = self.rng
        E = lambda: self.expr(cols, depth + 1)
        C = lambda: self.cond(cols, depth + 1)
        k = self.kw
        r = rng.random()
        if self.f["case_shapes"] and r < 0.12:
            self.used.add("case:else-null")
            return f"{k('CASE')} {k('WHEN')} {C()} {k('THEN')} {E()} {k('ELSE')} {k('NULL')} {k('END')}"
        if self.f["case_shapes"] and r < 0.24:
            self.used.add("case:coalesce-shape")
            x = self.ref(cols)
            if rng.random() < 0.5:
                return f"{k('CASE')} {k('WHEN')} {x} {k('IS NULL')} {k('THEN')} {E()} {k('ELSE')} {x} {k('END')}"
            return f"{k('CASE')} {k('WHEN')} {x} {k('IS NOT NULL')} {k('THEN')} {x} {k('ELSE')} {E()} {k('END')}"
        if self.f["case_shapes"] and r < 0.32:
            self.used.add("case:bool-shape")
            a, b = rng.choice([("TRUE", "FALSE"), ("FALSE", "TRUE"), ("true", "false")])
            if a == "FALSE" and not self.f["negated_bool_case"]:
                a, b = b, a
            if a == "FALSE":
                self.used.add("case:negated-bool-shape")
            return f"{k('CASE')} {k('WHEN')} {C()} {k('THEN')} {a} {k('ELSE')} {b} {k('END')}"
        if self.f["nested_case"] and r < 0.55 and depth < 3:
            self.used.add("case:nested")
            inner = (f"{k('CASE')} {k('WHEN')} {C()} {k('THEN')} {E()}"
                     + (f" {k('ELSE')} {E()}" if rng.random() < 0.7 else "") + f" {k('END')}")
            return f"{k('CASE')} {k('WHEN')} {C()} {k('THEN')} {E()} {k('ELSE')}{self.ws()}{inner}{self.ws()}{k('END')}"
        if r < 0.7:
            x = self.ref(cols)
            return (f"{k('CASE')} {x} {k('WHEN')} {rng.randint(0, 3)} {k('THEN')} {E()} {k('WHEN')} 'x' {k('THEN')} {E()}"
                    + (f" {k('ELSE')} {E()}" if rng.random() < 0.6 else "") + f" {k('END')}")
        return (f"{k('CASE')} {k('WHEN')} {C()} {k('THEN')} {E()}"
                + (f" {k('WHEN')} {C()} {k('THEN')} {E()}" if rng.random() < 0.3 else "")
                + (f" {k('ELSE')} {E()}" if rng.random() < 0.7 else "") + f" {k('END')}")

    def cond(self, cols, depth=0):
        rng = self.rng
        r = rng.random()
        a = self.expr(cols, depth + 1)
        b = self.expr(cols, depth + 1)
        k = self.kw
        if r < 0.4:
            op = rng.choice([" = ", " <> ", " != ", " < ", ">=", "=", "!=", "<>", " <= ", " = "])
            return f"{a}{op}{b}"
        if r < 0.5:
            return f"{a} {k('IS')} {k('NULL')}"
        if r < 0.55:
            return f"{a} {k('IS NOT NULL')}"
        if r < 0.63:
            return f"{a} {k('IN')} (1, 2,3)"
        if r < 0.66:
            return f"{a} {k('NOT IN')} (0,'x')"
        if r < 0.75 and depth < 2:
            self.used.add("brackets")
            return f"({self.cond(cols, depth + 1)} {k(rng.choice(['AND', 'OR']))} {self.cond(cols, depth + 1)})"
        if r < 0.85 and depth < 2:
            return f"{self.cond(cols, depth + 1)} {k(rng.choice(['AND', 'OR']))} {self.cond(cols, depth + 1)}"
        if r < 0.9:
            return f"{k('NOT')} {a} = {b}"
        if r < 0.93:
            return f"{a} {k('BETWEEN')} 0 {k('AND')} 3"
        quals = [(q_, c_) for q_, c_, _ in cols if q_] if cols and isinstance(cols[0], tuple) else []
        if r < 0.97 or not quals or not self.f.get("deep_correlated", True):
            return f"{a} {k('LIKE')} 'x%'"
        # a table alias of this query referenced only from a subquery two levels down
        q_, c_ = rng.choice(quals)
        self.used.add("correlated:two-levels")
        return (f"{k('EXISTS')} ({k('SELECT')} 1 {k('FROM')} t3 {k('WHERE')} t3.k {k('IN')} "
                f"({k('SELECT')} d {k('FROM')} t2 {k('WHERE')} t2.a = {q_}.{c_}))")

    def source(self, depth):
        """FROM clause: returns (sql, cols, extra_where or None)."""
        rng = self.rng
        k = self.kw
        t = rng.choice(list(T))
        alias = rng.choice([None, None, "x", "tt"])
        q = alias or t
        as_ = (rng.choice([" AS ", " as ", " "]) if self.f["noise"] else " AS ")
        frm = t + (as_ + alias if alias else "")
        if alias and as_ == " ":
            self.used.add("implicit-table-alias")
        cols = [(q, c, False) for c in T[t]]
        r = rng.random()
        if r < 0.38 and depth < 2:
            kind = rng.choice(["on", "on", "on", "subq", "cross", "where", "using"])
            t2 = rng.choice([x for x in T if x != t])
            a2 = rng.choice(["y", "j"])
            names1 = set(T[t])
            if kind == "subq" and self.f["join_subquery"]:
                self.used.add("join:subquery")
                sub = self.select(depth + 1, alias_all=True, plain=True)
                cols2 = sub["names"]
                right = f"({sub['sql']}) {k('AS')} {a2}"
            else:
                cols2 = list(T[t2])
                right = f"{t2}{rng.choice([' AS ', ' as ', ' ']) if self.f['noise'] else ' AS '}{a2}"
            amb = names1 & set(cols2)
            allcols = [(q, c, c in amb) for c in T[t]] + [(a2, c, c in amb) for c in cols2]
            jk = k(rng.choice(["JOIN", "JOIN", "INNER JOIN", "LEFT JOIN", "LEFT OUTER JOIN"]))
            jc1, jc2 = rng.choice(T[t]), rng.choice(cols2)
            l, rr = f"{q}.{jc1}", f"{a2}.{jc2}"
            if rng.random() < 0.4:
                l, rr = rr, l
                self.used.add("join:reversed-condition")
            on = f"{l}{rng.choice([' = ', '=', ' = '])}{rr}"
            if self.f.get("join_arith", True) and rng.random() < 0.3:
                # the comparison continues past the second column: not symmetric in its operands any more
                on += rng.choice([" + 1", " - 1", " + 0", " * 2"])
                self.used.add("join:arith-condition")
            if rng.random() < 0.25:
                on += f" {k('AND')} {q}.{rng.choice(T[t])} {rng.choice(['<>', '!=', '<', '>='])} {a2}.{rng.choice(cols2)}"
            if kind == "cross" and self.f["cross_join"]:
                self.used.add("join:no-condition")
                return f"{frm}{self.ws()}{k(rng.choice(['JOIN', 'CROSS JOIN', 'INNER JOIN']))} {right}", allcols, None
            if kind == "where" and self.f["where_join"]:
                self.used.add("join:condition-in-where")
                return f"{frm}{self.ws()}{k(rng.choice(['JOIN', 'INNER JOIN']))} {right}", allcols, on
            if kind == "using" and self.f["using"] and amb and cols2 == list(T.get(t2, [])):
                self.used.add("join:using")
                c = sorted(amb)[0]
                # after USING the shared column may be referenced unqualified, never qualified-ambiguously
                ucols = [(q, x, False) for x in T[t] if x != c] + [(a2, x, False) for x in cols2 if x != c] + [(None, c, False)]
                return f"{frm}{self.ws()}{jk} {right} {k('USING')} ({c})", ucols, None
            self.used.add("join:on")
            return f"{frm}{self.ws()}{jk} {right} {k('ON')} {on}", allcols, None
        if self.f["subquery"] and r < 0.5 and depth < 2:
            self.used.add("from:subquery")
            sub = self.select(depth + 1, alias_all=True, plain=True)
            return f"({sub['sql']}) {k('AS')} sq", [("sq", c, False) for c in sub["names"]], None
        return frm, cols, None

    def select(self, depth=0, nitems=None, alias_all=False, plain=False):
        rng = self.rng
        k = self.kw
        saved_mode = getattr(self, "refmode", None)
        frm, cols, extra_where = self.source(depth)
        self.refmode = rng.choice(["qual", "unqual", "mixed"] if self.f["mixed_qual"] else ["qual", "unqual"])
        if self.refmode == "mixed":
            self.used.add("mixed-qualification")
        n = nitems or rng.randint(1, 3)
        items, names = [], []
        for i in range(n):
            e = self.expr(cols)
            r = rng.random()
            bare = re.fullmatch(r"[a-z]", e)
            if self.f["self_alias"] and bare and r < 0.15 and not alias_all:
                self.used.add("self-alias")
                items.append((e, f" {k('AS')} {e}"))
                names.append(e)
            elif alias_all or r < 0.55:
                nm = f"c{i}"
                as_ = rng.choice([" AS ", " as ", " "]) if self.f["noise"] else " AS "
                if as_ == " ":
                    self.used.add("implicit-column-alias")
                items.append((e, f"{as_}{nm}"))
                names.append(nm)
            else:
                items.append((e, ""))
                names.append(None)
        distinct = ""
        if self.f["distinct"] and rng.random() < 0.2:
            self.used.add("distinct")
            distinct = k("DISTINCT") + self.ws()
            if self.f["distinct_brackets"] and rng.random() < 0.5:
                self.used.add("distinct-brackets")
                items[0] = ("(" + items[0][0] + ")", items[0][1])
                distinct = k("DISTINCT") + rng.choice(["", " ", " "])
        items = [e + a for e, a in items]
        where = []
        if extra_where:
            where.append(extra_where)
        if rng.random() < 0.5:
            where.append(self.cond(cols))
        wsql = (f"{self.ws()}{k('WHERE')} " + f" {k('AND')} ".join(where)) if where else ""
        s = (f"{k('SELECT')}{self.ws()}{distinct}{self.comma().join(items)}{self.comment()}{self.ws()}"
             f"{k('FROM')} {frm}{wsql}")
        if self.f["groupby"] and rng.random() < 0.15 and not nitems and not alias_all:
            g = self.ref(cols)
            agg = rng.choice(["COUNT(*)", "COUNT(*)", "COUNT(1)" if self.f["count1"] else "COUNT(*)",
                              "count(0)" if self.f["count1"] else "count(*)", f"SUM({self.ref(cols)})", f"max({self.ref(cols)})"])
            if "(1)" in agg or "(0)" in agg:
                self.used.add("count-1")
            self.used.add("group-by")
            s = (f"{k('SELECT')} {g}, {agg}{rng.choice([' AS n', ' n', ''])}{self.ws()}{k('FROM')} {frm}{wsql}{self.ws()}"
                 f"{k('GROUP BY')} {rng.choice([g, '1']) if self.f['ordinals'] else g}" + (f" {k('HAVING')} {k('COUNT')}(*) > 0" if rng.random() < 0.2 else ""))
            names, n = [None, "n"], 2
            keys = [g, agg]
        else:
            keys = [nm if nm is not None else ("(" + it + " + 0)" if re.fullmatch(r"[\d.]+|'.*'|null|NULL", it) else it)
                    for it, nm in zip(items, names)]
        if self.f["orderby"] and depth == 0 and not plain and rng.random() < 0.3:
            self.used.add("order-by")
            if self.f["ordinals"]:
                self.used.add("ordinal-position")
            dirs = lambda: rng.choice(["", "", " DESC", " asc", " ASC", " desc"])
            if self.f["limit"] and rng.random() < 0.5:
                self.used.add("limit")
                # total order over the output row
                order = ", ".join(f"{(i + 1) if self.f['ordinals'] else keys[i]}{dirs()}" for i in range(n))
                s += (f"{self.ws()}{k('ORDER BY')} {order}{self.ws()}{k('LIMIT')} {rng.randint(0, 4)}"
                      + (f" {k('OFFSET')} {rng.randint(0, 2)}" if rng.random() < 0.3 else ""))
            else:
                order = ", ".join(f"{rng.randint(1, n) if self.f['ordinals'] else rng.choice(keys)}{dirs()}"
                                  for _ in range(rng.randint(1, 2)))
                s += f"{self.ws()}{k('ORDER BY')} {order}"
        self.refmode = saved_mode
        return {"sql": s, "names": names if all(names) else [x for x in names if x], "all_named": all(names), "n": n}

    def query(self):
        rng = self.rng
        k = self.kw
        r = rng.random()
        if self.f["setops"] and r < 0.15:
            self.used.add("set-operator")
            n = rng.randint(1, 2)
            a, b = self.select(1, nitems=n, plain=True), self.select(1, nitems=n, plain=True)
            op = rng.choice(["UNION", "UNION ALL", "UNION", "EXCEPT", "INTERSECT"])
            return f"{a['sql']}{self.ws()}{k(op)}{self.ws()}{b['sql']}"
        if self.f["cte"] and r < 0.32:
            self.used.add("cte")
            s = self.select(1, alias_all=True, plain=True)
            ctes = f"cte {k('AS')} ({s['sql']})"
            if rng.random() < 0.3:
                s2 = self.select(1, alias_all=True, plain=True)
                ctes += f"{self.comma()}cte2 {k('AS')}{rng.choice([' ', '', ' '])}({s2['sql']})"
            cols = [("cte", c, False) for c in s["names"]]
            self.refmode = rng.choice(["qual", "unqual", "mixed"])
            items = self.comma().join(self.expr(cols) for _ in range(rng.randint(1, 2)))
            w = f"{self.ws()}{k('WHERE')} {self.cond(cols)}" if rng.random() < 0.4 else ""
            return f"{k('WITH')} {ctes}{self.ws()}{k('SELECT')} {items} {k('FROM')} cte{w}"
        return self.select()["sql"]

    def finish(self, s):
        if not self.f["noise"]:
            return s + "\n"
        return s + self.rng.choice([";", "", ";", " ;"]) + self.rng.choice(["\n", "", "\n\n", " \n"])


SQL_VALUES = [None, None, 0, 1, 2, 3, 5, -1, "x", "y", "", "It's", 1.5]


@st.composite
def gsqlx_case(draw, dialect="sqlite", populations=3, max_len=None, **features):
    """Executable query (extended construct set) + `populations` table populations for t1(a,b,c), t2(a,d), t3(k,v).
    max_len: regenerate (up to 6 times, then keep the shortest) until the text is at most that long (fix cost grows
    steeply with length)."""
    rng = seeded_rng(draw)
    best = None
    for _ in range(6):
        g = SqlGenX(rng, **features)
        sql = g.finish(g.query())
        if best is None or len(sql) < len(best[0]):
            best = (sql, g)
        if max_len is None or len(sql) <= max_len:
            break
    sql, g = best
    val = st.sampled_from(SQL_VALUES)
    pops = []
    for i in range(populations):
        pop = {}
        for t, cs in T.items():
            if i == 0:
                # one dense population over a narrow value domain, so that joins and filters usually return rows
                dense = st.sampled_from([None, 0, 1, 2, 3, "x"])
                rows = draw(st.lists(st.lists(dense, min_size=len(cs), max_size=len(cs)), min_size=4, max_size=10))
            else:
                rows = draw(st.lists(st.lists(val, min_size=len(cs), max_size=len(cs)), min_size=0, max_size=6))
            if rows and draw(st.integers(0, 3)) == 0:
                rows = rows + [rows[0]]  # duplicates
            pop[t] = rows
        pops.append(pop)
    return {"dialect": dialect, "sql": sql, "pops": pops, "constructs": sorted(g.used), "origin": "gsqlx"}


# --------------------------------------------------------------------------- harness hygiene


def tame_tqdm():
    """sqlfluff creates a tqdm bar per lint loop.  tqdm starts a monitor thread and guards instance creation with a
    multiprocessing lock; the runner forks its shards after the replay tier has already linted in the parent, and a
    fork taken while the monitor thread holds the lock leaves a child blocked for ever while it holds the shared
    semaphore (observed: all shards and the parent asleep in sem_wait).  No monitor thread and a thread-local lock
    remove the race; progress bars are disabled anyway.  Call before the first lint (idempotent)."""
    try:
        import threading

        import tqdm
    except ImportError:
        return
    if getattr(tqdm.tqdm, "_verif_tamed", False):
        return
    tqdm.tqdm.monitor_interval = 0
    try:
        tqdm.tqdm.set_lock(threading.RLock())
    except Exception:
        pass
    tqdm.tqdm._verif_tamed = True


# --------------------------------------------------------------------------- fixed (seed-independent) generated corpora
# The pinned tier of the lint-level checks uses these: the generators above driven by random.Random(i) for a fixed
# range of i.  They define a corpus (same in every run, so its baseline can be saturated once); all *seeded*
# exploration still goes through Hypothesis.


def fixed_templates(n, salt=0):
    import random

    for i in range(n):
        rng = random.Random(1000003 * (salt + 1) + i)
        kind = i % 5
        if kind in (0, 1):
            prof = "realistic" if kind == 0 else "adversarial"
            g = JinjaGen(rng, profile=prof, undefined=(i % 10 == 5))
            yield {"dialect": "ansi", "templater": "jinja", "sql": g.block(), "context": dict(JCTX), "profile": prof,
                   "origin": "fixed-jinja"}
        elif kind == 2:
            pieces = ["SELECT ", " FROM ", "\n", "  ", "a", ", ", " WHERE x = 1", "{{", "}}", "{a}", "{b}", "{tbl}", "{a!r}",
                      "{b:>4}", "{a:<6}", "{w!s}", "{foo.bar}", "{a.b}", "{b:04d}", "-- c\n", "'s'", "{", "}", "{}", "{missing}"]
            yield {"dialect": "ansi", "templater": "python", "sql": "".join(rng.choice(pieces) for _ in range(rng.randint(1, 8))),
                   "context": dict(PYCTX), "dotted": dict(PYDOT), "origin": "fixed-pyfmt"}
        elif kind == 3:
            style = sorted(PH_EXAMPLES)[i % len(PH_EXAMPLES)]
            lits = ["SELECT ", "a", " FROM ", "t", " WHERE x = ", "\n", " ", ", ", "tbl", "::", ":", "\\", "'q'", "(", ")", "1", "="]
            parts = [rng.choice(PH_EXAMPLES[style]) if rng.random() < 0.5 else rng.choice(lits) for _ in range(rng.randint(1, 9))]
            yield {"dialect": "ansi", "templater": "placeholder", "sql": "".join(parts), "param_style": style,
                   "context": {"name": "nval", "a": "aval"} if i % 2 else {}, "origin": "fixed-placeholder"}
        else:
            g = SqlGen(rng, distinct=True)
            yield {"dialect": "sqlite", "templater": "raw", "sql": g.finish(g.query()), "origin": "fixed-gsql", "mutated": 0}
