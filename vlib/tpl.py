"""Small helpers shared by the templater checks (C07, C08, C09)."""
import json
import re

from vlib.sf import mkcfg

_CFG = {}


def cached_cfg(templater, context=None, param_style=None, dotted=None, jinja_opts=None, **overrides):
    """mkcfg(...) memoised on its arguments: building a FluffConfig expands the dialect (20-60 ms), which would
    otherwise dominate the cost of a templating case.  render_string / process_with_variants do not modify it.
    A config that differs from a cached one only in the templater's context section is made from FluffConfig.copy()
    of that one with the section replaced (same nested dict FluffConfig(configs=...) would have built).
    jinja_opts: extra keys for the [sqlfluff:templater:jinja] section (e.g. apply_dbt_builtins)."""
    key = json.dumps([templater, context, param_style, dotted, jinja_opts, overrides], sort_keys=True, default=str)
    cfg = _CFG.get(key)
    if cfg is not None:
        return cfg
    if len(_CFG) > 400:
        _CFG.clear()
    bkey = json.dumps([templater, overrides], sort_keys=True, default=str)
    base = _CFG.get(bkey)
    if base is None:
        base = _CFG[bkey] = mkcfg("ansi", templater, context={}, param_style="colon" if templater == "placeholder" else None,
                                  **overrides)
    cfg = base.copy()
    if templater == "jinja":
        section = dict(jinja_opts or {})
        section["context"] = dict(context or {})
        section = dict(base.get_section(("templater", "jinja")) or {}, **section)
    elif templater == "python":
        ctx = dict(context or {})
        if dotted:
            ctx["sqlfluff"] = dict(dotted)
        section = {"context": ctx}
    elif templater == "placeholder":
        section = dict(context or {})
        if param_style:
            section["param_style"] = param_style
    else:
        section = None
    if section is not None:
        cfg._configs.setdefault("templater", {})[templater] = section
    _CFG[key] = cfg
    return cfg


def ws_control(sql):
    """Does the template use Jinja whitespace control ({%- -%} {{- -}} {#- -#} {%+ )?"""
    return bool(re.search(r"\{[{%#][-+]|[-+][}%#]\}", sql))


_ENV = []


def plain_env():
    """jinja2 environment with the documented settings, built without sqlfluff."""
    if not _ENV:
        from jinja2.sandbox import SandboxedEnvironment

        _ENV.append(SandboxedEnvironment(keep_trailing_newline=True, extensions=["jinja2.ext.do"]))
    return _ENV[0]


def jinja_parses(sql):
    """Generator-side filter: a template plain Jinja cannot parse is refused by the templater (no rendering)."""
    try:
        plain_env().parse(sql)
        return True
    except Exception:
        return False


# --------------------------------------------------------------------------- richer G-pyfmt / G-ph (C09, also C07)

PY_CTX = {"a": "col_a", "b": 7, "tbl": "my_table", "w": "x y", "f": 2.5, "neg": -3, "br": "va{l}ue", "e": "",
          "lst": ["p", "q"]}
PY_DOT = {"foo.bar": "dotted_val", "a.b": "ab_val", "s.t.u": 12}

PY_LITS = ["SELECT ", " FROM ", "\n", "  ", "a", ", ", " WHERE x = 1", "'s'", "-- c\n", "[", "]", "!", ":", "tbl", "(", ")"]
PY_DOT_LITS = ["1.5", ".", " t.c ", "a.b"]
PY_ESCAPES = ["{{", "}}", "{{}}", "{{{{", "}}}}"]
PY_FIELDS = ["{a}", "{b}", "{tbl}", "{w}", "{f}", "{neg}", "{br}", "{e}", "{lst}", "{lst[0]}", "{a!r}", "{a!s}", "{b!r}", "{w!a}",
             "{b:>4}", "{a:<6}", "{a:^9}", "{b:04d}", "{f:.1f}", "{f:8.3f}", "{neg:+d}", "{b:x}", "{a:{b}}", "{a:>{b}}",
             "{a!r:>10}", "{a:*<8}", "{a}{b}", "{tbl}.{a}"]
PY_DOTTED = ["{foo.bar}", "{a.b}", "{s.t.u}", "{foo.bar:>12}", "{s.t.u:04d}", "{a.b:.3}", "{foo.bar:>{b}}"]
# valid format strings that the unchanged tree cannot render (known findings F-C09-a / F-C09-b); kept out of the
# "clean" profile so that they do not drown the rest
PY_HAZARD = ["{a:}", "{b!s:}", "{foo.bar!r}", "{a.b!s:>8}", "{foo.bar: >12}", "{a: >8}"]
PY_INVALID = ["{", "}", "{}", "{0}", "{a!x}", "{missing}", "{a", "{b:zz}", "{no.such}", "{a:>{missing}}", "{ a }", "{a.}", "{a!}",
              "{lst[5]}", "{b:s}"]


def pyfmt_rich_case():
    """Python format strings over PY_CTX/PY_DOT.  profile: 'clean' = never an escaped brace together with a dot,
    no PY_HAZARD piece; 'full' = everything valid; 'invalid' = at least one invalid piece."""
    from hypothesis import strategies as st

    @st.composite
    def build(draw):
        profile = draw(st.sampled_from(["clean", "clean", "clean", "full", "full", "invalid"]))
        pool = list(PY_LITS) + list(PY_FIELDS) * 2
        if profile == "clean":
            if draw(st.booleans()):
                pool += PY_ESCAPES * 3
            else:
                pool += PY_DOT_LITS + PY_DOTTED * 2
        else:
            pool += PY_ESCAPES * 2 + PY_DOT_LITS + PY_DOTTED * 2 + PY_HAZARD
        parts = draw(st.lists(st.sampled_from(pool), min_size=1, max_size=9))
        if profile == "invalid":
            parts.insert(draw(st.integers(0, len(parts))), draw(st.sampled_from(PY_INVALID)))
        return {"templater": "python", "sql": "".join(parts), "context": dict(PY_CTX), "dotted": dict(PY_DOT),
                "profile": profile}

    return build()


PH_PIECES = {
    "colon": [":name", ":a", ":b1", ":é1", ":_x"],
    "colon_nospaces": [":name", ":a", ":b1"],
    "colon_optional_quotes": [":name", ':"name"', ":'a'", ":a", ":\"a'", ":'b1'"],
    "numeric_colon": [":1", ":2", ":10", ":007"],
    "pyformat": ["%(name)s", "%(a)s", "%(b1)s", "%(name)d", "%(name)"],
    "dollar": ["$name", "${name}", "$a", "${a}", "${b1", "$b1}"],
    "dollar_surround": ["$name$", "$a$", "$b-1$", "$name"],
    "flyway_var": ["${name}", "${flyway:database}", "${a}", "${a:b1}", "$name"],
    "question_mark": ["?", "??", "?"],
    "numeric_dollar": ["$1", "$2", "$10", "${2}", "${1"],
    "percent": ["%s", "%s", "%d", "%%s"],
    "ampersand": ["&name", "&{name}", "&a", "&&a", "&{b1", "&b1}"],
}
PH_LITS = ["SELECT ", "a", " FROM ", "t", " WHERE x = ", "\n", " ", ", ", "tbl", "::", ":", "\\", "'q'", "(", ")", "1", "x", "-- c\n",
           "=", " AND ", "$", "%", "&", "_", "é"]
PH_VALUES = {"name": "nval", "a": "a_much_longer_value", "b1": 5, "1": "one", "2": "", "10": "ten", "flyway:database": "db",
             "007": 7, "é1": ":a $a ?", "_x": "x", "b-1": "dash", "a:b1": "colon key"}


def placeholder_rich_case(styles=None):
    from hypothesis import strategies as st

    @st.composite
    def build(draw):
        style = draw(st.sampled_from(sorted(styles or PH_PIECES)))
        n = draw(st.integers(1, 10))
        parts = []
        for _ in range(n):
            parts.append(draw(st.sampled_from(PH_PIECES[style] if draw(st.booleans()) else PH_LITS)))
        keep = draw(st.one_of(st.just(set()), st.sets(st.sampled_from(sorted(PH_VALUES)), max_size=len(PH_VALUES)),
                              st.just(set(PH_VALUES))))
        return {"templater": "placeholder", "sql": "".join(parts), "param_style": style,
                "context": {k: v for k, v in PH_VALUES.items() if k in keep}}

    return build()
