"""Shared domain and observation for the lex/parse family (C01, C02, C03, C28)."""
from __future__ import annotations

from hypothesis import strategies as st

from vlib import gens
from vlib.sf import Crash, guard, mkcfg

PINNED_TEXT = [
    "", " ", "\n", "SELECT", "SELECT 1", "select 'abc", 'select "abc', "select /* abc", "select 1 -- x", "a\x00b",
    "seléct \U0001F600", "select [a] from `t`", "select $$x$$", "((((", "))))", "select 1;;;", "'", '"', "`",
    "\\", "\r\n", "a\rb", "\t\tselect\t1", "﻿select 1", "select 1   x", "x́", "{{", "{% x %}", "--",
    "/*", "*/", "1e", "1.e5.3", "a.b.c.d", "@@x", "$1", ":x", "?", "select * from t where a = 'it''s'",
    "SELECT a FROM t WHERE (((a = 1", "select 1 union select", "create table t (a int", "select   1",
    ";", ";;", "  ;\nSELECT 1;\n", "-- c\n;\nSELECT 1\n", ";WITH c AS (SELECT 1) SELECT * FROM c", "/* c */ ; -- d\n", ",", ")",
    "SELECT '" + "x" * 150 + "' AS long_literal -- " + "c" * 140 + "\n", "SELECT 1" + " " * 130 + "FROM t\n",
]


def pinned_cases(tier, per_dialect_quick=4, per_dialect_thorough=30):
    n = per_dialect_quick if tier == "quick" else per_dialect_thorough
    for c in (gens.corpus_slice(n, maxsize=800 if tier == "quick" else 1500) if n else ()):
        c["templater"] = "raw"
        yield c
    for i, t in enumerate(PINNED_TEXT):
        ds = gens.dialects()
        for d in ([ds[i % len(ds)], "ansi"] if tier == "quick" else ds):
            yield {"dialect": d, "templater": "raw", "sql": t, "origin": "pinned-text"}
    for r in gens.templater_corpus():
        if len(r["sql"]) < (600 if tier == "quick" else 2000):
            yield {"dialect": "ansi", "templater": "jinja", "sql": r["sql"], "context": dict(gens.JCTX),
                   "origin": "templater-fixture:" + r["name"]}


def domain(tier, raw_weight=3, jinja_profile=None, maxsize=None, adversarial_jinja=True):
    """Hypothesis strategy over the whole lex/parse input domain."""
    maxsize = maxsize or (700 if tier == "quick" else 1500)
    raw = [gens.corpus_case(maxsize=maxsize), gens.corpus_case(maxsize=maxsize, mutate=True), gens.text_case()]
    jprofiles = ["realistic", "adversarial"] if adversarial_jinja else ["realistic"]
    templ = [
        gens.jinja_case(profile=jinja_profile, uniform=True) if jinja_profile else st.sampled_from(jprofiles).flatmap(
            lambda p: gens.jinja_case(profile=p, uniform=True)),
        gens.pyfmt_case(),
        gens.placeholder_case(),
    ]
    return st.one_of(*(raw * raw_weight + templ))


def config_for(case, **overrides):
    return mkcfg(
        dialect=case.get("dialect", "ansi"),
        templater=case.get("templater", "raw"),
        context=case.get("context"),
        param_style=case.get("param_style"),
        dotted=case.get("dotted"),
        **overrides,
    )


class Observation:
    """render -> lex -> parse of one case through the Linter's own pipeline."""

    def __init__(self, case, parse=True, **overrides):
        from sqlfluff.core import Linter

        self.case = case
        self.crash = None
        self.rendered = None
        self.parsed = None
        self.variants = []  # (templated_file, tokens, lex_violations, tree, parse_violations)
        try:
            self.config = config_for(case, **overrides)
            self.linter = Linter(config=self.config)
        except Exception as e:  # invalid config for this case: outside the domain
            self.crash = Crash(e)
            self.config_error = True
            return
        self.config_error = False
        r = guard(self.linter.render_string, case["sql"], "t.sql", self.config, "utf8")
        if isinstance(r, Crash):
            self.crash = r
            return
        self.rendered = r
        if parse:
            p = guard(self.linter.parse_rendered, r)
            if isinstance(p, Crash):
                self.crash = p
                return
            self.parsed = p

    @property
    def source(self):
        return self.rendered.source_str if self.rendered else self.case["sql"]

    def lex_variants(self):
        """[(templated_file, tokens, lex_errors)] using the Lexer directly (unfiltered tokens)."""
        from sqlfluff.core.parser import Lexer

        out = []
        for tf in self.rendered.templated_variants:
            res = guard(Lexer(config=self.config).lex, tf)
            out.append((tf, res))
        return out


def base_labels(case):
    labs = ["templater:" + case.get("templater", "raw")]
    if case.get("templater", "raw") == "raw":
        labs.append("dialect:" + case.get("dialect", "ansi"))
    if case.get("mutated"):
        labs.append("mutated")
    if case.get("profile"):
        labs.append("jinja:" + case["profile"])
    return labs
