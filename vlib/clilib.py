"""Project scenarios for the CLI-level properties (C18, C19, C22).

A *scenario* is a plain dict (JSON-serialisable, it is the replay file):

    sql       text of the one SQL file (LF newlines)
    fname     "q.sql" or "sub/q.sql" (relative to the project root)
    cfg       core settings of <root>/.sqlfluff          ([sqlfluff] section, values are strings / bools / ints)
    sub       core settings of <root>/sub/.sqlfluff, or None  (only meaningful when fname is inside sub/)
    rulecfg   {"capitalisation.keywords": {"capitalisation_policy": "lower"}} written to the root file, or None
    subrulecfg  same for sub/.sqlfluff
    cli       {"rules":..,"exclude_rules":..,"ignore":..,"dialect":..,"nofail":bool,"feu":bool,"disable_noqa":bool}
    pieces    informational: the names of the content pieces the text was composed from

The file content is composed from *pieces* with a known class (clean / fixable layout / multi-pass fixable /
unfixable / PRS error with and without a tree / TMP error with and without a tree) and optional noqa comments;
the checks additionally take the ground truth (which violations exist, which are fixable) from an in-process
run with noqa disabled, reading the *unfiltered* list, so "ignore" and "warnings" do not matter to it.

Nothing here calls os.chdir.  CLI runs are real subprocesses with cwd = project root.  In-process runs use
FluffConfig.from_path on absolute paths inside a directory that is unique to the case (sqlfluff caches config
files per path for the life of the process).
"""
from __future__ import annotations

import os
import re
import shutil
import subprocess
import sys
import tempfile

from hypothesis import strategies as st

# --------------------------------------------------------------------------------------------- content pieces

# name -> (text, class).  Classes:
#   clean        no violation under any bundled rule
#   fixable      violations that all carry fixes (layout / capitalisation)
#   multipass    fixable, needs more than one pass of the main fix loop (LT09 then LT02)
#   unfixable    a violation without a fix
#   prs          parse error, tree exists (unparsable section)
#   prs-notree   parse error raised before a tree exists (unclosed bracket)
#   tmp          undefined jinja variable, renders to valid SQL (TMP only, tree exists)
#   tmp+prs      undefined jinja variable whose empty rendering also breaks the parse
#   tmp-notree   fatal template syntax error: no rendering, no tree
PIECES = {
    "clean1": ("SELECT a FROM t1;", "clean"),
    "clean2": ("SELECT a, b FROM t1 WHERE a > 1;", "clean"),
    "clean3": ("SELECT\n    a,\n    b\nFROM t2;", "clean"),
    "fix_space": ("SELECT  a FROM t1;", "fixable"),
    "fix_comma": ("SELECT a FROM t1 WHERE a IN (1,2);", "fixable"),
    "fix_caps": ("SELECT a from t1;", "fixable"),
    "fix_trail": ("SELECT a FROM t1 ;", "fixable"),
    "fix_multi": ("SELECT a,b from t1;", "multipass"),
    "fix_multi2": ("SELECT a, b FROM t1 where a > 1 and b < 2 ORDER BY a, b;", "fixable"),
    "unfix_am01": ("SELECT DISTINCT a FROM t1 GROUP BY a;", "unfixable"),
    "unfix_al04": ("SELECT x.a FROM t1 AS x, t2 AS x;", "unfixable"),
    "unfix_lt05": ("-- " + "long comment line " * 6, "unfixable"),
    "prs_where": ("SELECT a FROM t1 WHERE;", "prs"),
    "prs_plus": ("SELECT 1 +;", "prs"),
    "prs_words": ("FOO BAR BAZ;", "prs"),
    "prs_bracket": ("SELECT (a FROM t1;", "prs-notree"),
    "tmp_undef": ("SELECT a{{ undefined_var }} FROM t1;", "tmp"),
    "tmp_undef_prs": ("SELECT {{ undefined_var }} FROM t1;", "tmp+prs"),
    "tmp_fatal": ("SELECT {% if %} a FROM t1;", "tmp-notree"),
}
BY_CLASS = {}
for _n, (_t, _c) in PIECES.items():
    BY_CLASS.setdefault(_c, []).append(_n)
ERROR_CLASSES = ("prs", "prs-notree", "tmp", "tmp+prs", "tmp-notree")
JINJA_ONLY = ("tmp", "tmp+prs", "tmp-notree")

NOQA_FORMS = [None, "", "PRS", "TMP", "PRS,TMP", "LT01", "CP01", "LT01,CP01,LT09,LT02", "AM01,AL04,LT05"]


def compose(parts, header=(), final_newline=True):
    """parts: list of (piece name, noqa form or None).  The noqa comment goes at the end of the last line of the
    piece (the line where the PRS/TMP pieces report their error)."""
    lines = list(header)
    for name, noqa in parts:
        text = PIECES[name][0]
        if noqa is not None:
            text += "  -- noqa" + (": " + noqa if noqa else "")
        lines.append(text)
    return "\n".join(lines) + ("\n" if final_newline else "")


class Picker:
    """Procedural choices for one scenario, a deterministic function of ONE Hypothesis-drawn integer (``seeds()``).

    Why not one Hypothesis draw per choice: Hypothesis starts every run from the minimal example and favours small /
    boundary values, so with a dozen expensive cases per shard all 16 shards would begin with the same scenario and the
    'rare' options would be anything but rare.  The generated case itself (not the seed) is what is stored and replayed.
    """

    def __init__(self, seed):
        import random

        self.r = random.Random(int(seed))

    def choice(self, seq):
        seq = list(seq)
        return seq[self.r.randrange(len(seq))]

    def chance(self, k, n):
        return self.r.randrange(n) < k

    def randint(self, a, b):
        return self.r.randint(a, b)

    def sample(self, seq, k):
        return self.r.sample(list(seq), k)


def seeds():
    return st.integers(min_value=0, max_value=2 ** 48 - 1)


def scenarios(fn):
    """Hypothesis strategy of scenarios: fn(Picker) -> case dict."""
    return seeds().map(lambda s: fn(Picker(s)))


ERROR_WEIGHTS = {"prs": 3, "tmp": 3, "tmp+prs": 1, "prs-notree": 1, "tmp-notree": 1}


def content(pick, errors="some", noqa="some", inline=False, max_parts=4, classes=None, error_weights=None):
    """-> (sql, piece names, header kind).

    errors: "none" | "some" (about half the files carry a PRS/TMP piece) | "always"
    noqa:   "none" | "some" | "errors" (only the PRS/TMP pieces get noqa comments, and usually do)
    inline: allow an in-file ``-- sqlfluff:`` directive as first line
    """
    templater_jinja = pick.chance(1, 2) if errors != "none" else True
    lint_classes = list(classes or ("clean", "fixable", "fixable", "multipass", "unfixable"))
    n = pick.randint(1, max_parts)
    parts = []
    for _ in range(n):
        cls = pick.choice(lint_classes)
        parts.append(pick.choice(BY_CLASS[cls]))
    want_err = {"none": False, "always": True}.get(errors)
    if want_err is None:
        want_err = pick.chance(1, 2)
    if want_err:
        ecls = [c for c, w in (error_weights or ERROR_WEIGHTS).items() for _ in range(w)
                if templater_jinja or c not in JINJA_ONLY]
        for _ in range(pick.choice([1, 1, 1, 2])):
            e = pick.choice(BY_CLASS[pick.choice(ecls)])
            # an unparsable statement swallows everything after it (one unparsable section up to the end of the
            # file), so the error piece mostly goes last: the statements before it keep their lint violations
            parts.insert(len(parts) if pick.chance(2, 3) else pick.randint(0, len(parts)), e)
    out = []
    for p in parts:
        is_err = PIECES[p][1] in ERROR_CLASSES
        form = None
        if noqa == "some":
            if is_err:
                form = pick.choice([None, None, "", "PRS", "TMP", "PRS,TMP", "LT01"])
            else:
                form = pick.choice([None, None, None, None] + NOQA_FORMS[1:])
        elif noqa == "errors" and is_err:
            form = pick.choice([None, "", "PRS", "TMP", "PRS,TMP", "PRS,TMP"])
        out.append((p, form))
    header = []
    hkind = None
    if noqa != "none" and pick.chance(1, 10):
        hkind = pick.choice(["disable=all", "disable=PRS", "disable=PRS,TMP", "disable=LT01"])
        header.append("-- noqa: " + hkind)
    if inline and pick.chance(1, 4):
        d = pick.choice(INLINE_DIRECTIVES)
        header.append("-- sqlfluff:" + d)
        hkind = (hkind + "+" if hkind else "") + "inline:" + d
    sql = compose(out, header, final_newline=not pick.chance(1, 8))
    names = [p + ("" if f is None else "+noqa:" + (f or "all")) for p, f in out]
    return sql, names, hkind, templater_jinja


INLINE_DIRECTIVES = [
    "rules:CP01",
    "rules:LT01",
    "exclude_rules:LT01,LT09",
    "exclude_rules:CP01",
    "rules:capitalisation.keywords:capitalisation_policy:lower",
    "warnings:LT01",
    "ignore:parsing",
    "dialect:postgres",
]

RULE_SETS = [None, None, "core", "all", "LT01,CP01,LT09,LT02,LT12", "layout,capitalisation", "LT01,LT09,LT02,AM01,AL04,LT05",
             "CP01,AM01,AL04"]
EXCLUDES = [None, None, None, "LT01", "CP01", "LT09,LT02", "AM01,AL04,LT05", "LT12"]
WARNINGS = [None, None, "LT01", "CP01", "PRS", "TMP", "PRS,TMP", "LT01,CP01,LT09,LT02,LT12", "AM01,AL04,LT05",
            "layout.spacing", "capitalisation.keywords"]
IGNORES = [None, None, "parsing", "templating", "parsing,templating", "linting", "lexing", "parsing,templating,linting"]
DIALECTS = ["ansi", "ansi", "ansi", "postgres", "sqlite", "duckdb", "bigquery"]


def core_cfg(pick, warnings=True, ignore=True, feu=False, runaway=False, disable_noqa=False, templater_jinja=True,
             rule_sets=None, excludes=None):
    cfg = {"dialect": pick.choice(DIALECTS)}
    if not templater_jinja:
        cfg["templater"] = "raw"
    r = pick.choice(rule_sets or RULE_SETS)
    if r:
        cfg["rules"] = r
    e = pick.choice(excludes or EXCLUDES)
    if e:
        cfg["exclude_rules"] = e
    if warnings:  # True = default pool, or an explicit pool
        w = pick.choice(WARNINGS if warnings is True else list(warnings))
        if w:
            cfg["warnings"] = w
    if ignore:
        i = pick.choice(IGNORES if ignore is True else list(ignore))
        if i:
            cfg["ignore"] = i
    if feu and pick.chance(1, 8):
        cfg["fix_even_unparsable"] = True
    if runaway and pick.chance(1, 4):
        cfg["runaway_limit"] = pick.choice([1, 2])
    if disable_noqa and pick.chance(1, 12):
        cfg["disable_noqa"] = True
    return cfg


def sub_cfg(pick, warnings=True, ignore=True):
    """Settings of a nested sub/.sqlfluff (only things that may legitimately differ per directory)."""
    cfg = {}
    k = pick.choice(["rules", "exclude_rules", "warnings", "ignore", "dialect", "rules+warnings"])
    if "rules" in k.split("+"):
        cfg["rules"] = pick.choice([r for r in RULE_SETS if r])
    if k == "exclude_rules":
        cfg["exclude_rules"] = pick.choice([e for e in EXCLUDES if e])
    if "warnings" in k.split("+") and warnings:
        cfg["warnings"] = pick.choice([w for w in WARNINGS if w])
    if k == "ignore" and ignore:
        cfg["ignore"] = pick.choice([i for i in IGNORES if i])
    if k == "dialect":
        cfg["dialect"] = pick.choice(DIALECTS)
    return cfg or {"exclude_rules": "LT01"}


def effective(case):
    """Effective core settings of the file: root file < nested file < command line (the documented precedence)."""
    eff = dict(case.get("cfg") or {})
    if case.get("sub") and case.get("fname", "").startswith("sub/"):
        eff.update(case["sub"])
    cli = case.get("cli") or {}
    for k in ("rules", "exclude_rules", "ignore", "dialect", "warnings"):
        if cli.get(k):
            eff[k] = cli[k]
    if cli.get("disable_noqa"):
        eff["disable_noqa"] = True
    if cli.get("feu"):
        eff["fix_even_unparsable"] = True
    return eff


# --------------------------------------------------------------------------------------------- projects on disk


def scratch_root():
    return os.environ.get("VERIF_SCRATCH") or tempfile.gettempdir()


def render_cfg(core, rulecfg=None):
    lines = ["[sqlfluff]"]
    for k, v in (core or {}).items():
        lines.append("%s = %s" % (k, v))
    for sect, vals in (rulecfg or {}).items():
        lines.append("")
        lines.append("[sqlfluff:rules:%s]" % sect)
        for k, v in vals.items():
            lines.append("%s = %s" % (k, v))
    return "\n".join(lines) + "\n"


class Project:
    """One materialised copy of a scenario.  Every run that may write gets its own copy."""

    def __init__(self, case, tag="p"):
        self.case = case
        self.root = tempfile.mkdtemp(prefix="cli-%s-" % tag, dir=scratch_root())
        self.fname = case.get("fname") or "q.sql"
        self.path = os.path.join(self.root, self.fname)
        os.makedirs(os.path.dirname(self.path), exist_ok=True)
        if case.get("cfg") is not None:
            with open(os.path.join(self.root, ".sqlfluff"), "w", newline="") as fh:
                fh.write(render_cfg(case["cfg"], case.get("rulecfg")))
        if case.get("sub") is not None:
            os.makedirs(os.path.join(self.root, "sub"), exist_ok=True)
            with open(os.path.join(self.root, "sub", ".sqlfluff"), "w", newline="") as fh:
                fh.write(render_cfg(case["sub"], case.get("subrulecfg")))
        self.data = case["sql"].encode("utf-8")
        with open(self.path, "wb") as fh:
            fh.write(self.data)

    def read(self):
        with open(self.path, "rb") as fh:
            return fh.read()

    def listing(self):
        out = []
        for d, _, fs in os.walk(self.root):
            for f in fs:
                out.append(os.path.relpath(os.path.join(d, f), self.root))
        return sorted(out)

    def cleanup(self):
        shutil.rmtree(self.root, ignore_errors=True)

    def __enter__(self):
        return self

    def __exit__(self, *a):
        self.cleanup()


def cli_opts(case):
    """Command-line options of the scenario (same for every entry point)."""
    cli = case.get("cli") or {}
    args = []
    for k, flag in (("dialect", "--dialect"), ("rules", "--rules"), ("exclude_rules", "--exclude-rules"),
                    ("ignore", "--ignore")):
        if cli.get(k):
            args += [flag, cli[k]]
    if cli.get("disable_noqa"):
        args.append("--disable-noqa")
    return args


def _fork_mode():
    """VERIF_CLI_FORK=1: exploration aid, NOT used by the registered commands.  The CLI is then run in a forked child of
    the harness process (cwd changed in the child only, sys.std* replaced, SystemExit caught) instead of a fresh
    interpreter: no interpreter start-up, so many seeds can be screened cheaply; anything it finds is re-run with real
    subprocesses (a replay file) before it is believed."""
    return os.environ.get("VERIF_CLI_FORK") == "1"


def _cli_in_child(args, cwd, data, answer=None):
    import io
    import json
    import logging
    import traceback

    out, err = io.StringIO(), io.StringIO()
    rc = 0
    try:
        os.chdir(cwd)
        sys.stdin = io.TextIOWrapper(io.BytesIO(data), encoding="utf-8")
        sys.stdout, sys.stderr = out, err
        sys.argv = ["sqlfluff"] + list(args)
        logging.disable(logging.NOTSET)
        import click

        import sqlfluff.core.linter.discovery as disc
        from sqlfluff.cli.commands import cli

        # paths_from_path binds working_path=os.getcwd() at import time: give the child what a fresh process would have
        d = list(disc.paths_from_path.__defaults__)
        import inspect

        names = [p.name for p in inspect.signature(disc.paths_from_path).parameters.values() if p.default is not p.empty]
        d[names.index("working_path")] = os.getcwd()
        disc.paths_from_path.__defaults__ = tuple(d)
        if answer is not None:
            click.getchar = lambda *a, **k: answer
        try:
            cli.main(args=list(args), prog_name="sqlfluff", standalone_mode=True)
        except SystemExit as e:
            rc = e.code if isinstance(e.code, int) else (0 if e.code is None else 1)
    except BaseException:
        traceback.print_exc(file=err)
        rc = 1
    return json.dumps([rc, out.getvalue(), err.getvalue()]).encode("utf-8")


class CliJob:
    """``python -m sqlfluff <args>`` started in the background (cwd = project directory); ``result()`` waits.
    Several jobs of one case run side by side: they are independent processes working on separate project copies."""

    def __init__(self, args, cwd, stdin=None, answer=None):
        if isinstance(stdin, str):
            stdin = stdin.encode("utf-8")
        data = stdin or b""
        assert len(data) < 60000, "stdin payload must fit in the pipe buffer"
        self.p = None
        if _fork_mode():
            r, w = os.pipe()
            sys.stdout.flush()
            sys.stderr.flush()
            pid = os.fork()
            if pid == 0:
                code = 0
                try:
                    os.close(r)
                    payload = _cli_in_child(list(args), cwd, data, answer)
                    with os.fdopen(w, "wb") as fh:
                        fh.write(payload)
                except BaseException:
                    code = 3
                finally:
                    os._exit(code)
            os.close(w)
            self.pid, self.fd = pid, r
            return
        r, w = os.pipe()
        try:
            os.write(w, data)
        finally:
            os.close(w)
        try:
            self.p = subprocess.Popen([sys.executable, "-m", "sqlfluff"] + list(args), cwd=cwd, stdin=r,
                                      stdout=subprocess.PIPE, stderr=subprocess.PIPE, env=dict(os.environ))
        finally:
            os.close(r)

    def kill(self):
        if self.p is not None:
            if self.p.poll() is None:
                self.p.kill()
        else:
            try:
                os.kill(self.pid, 9)
            except OSError:
                pass

    def result(self, timeout=300):
        if self.p is None:
            import json

            with os.fdopen(self.fd, "rb") as fh:
                raw = fh.read()
            os.waitpid(self.pid, 0)
            if not raw:
                return -9, "", "forked CLI child died without reporting"
            rc, so, se = json.loads(raw.decode("utf-8"))
            return rc, so, se
        try:
            so, se = self.p.communicate(timeout=timeout)
        except subprocess.TimeoutExpired:
            self.p.kill()
            so, se = self.p.communicate()
            return -9, so.decode("utf-8", "replace"), se.decode("utf-8", "replace")
        return self.p.returncode, so.decode("utf-8", "replace"), se.decode("utf-8", "replace")


def run_cli(args, cwd, stdin=None, timeout=300):
    """Run ``python -m sqlfluff <args>`` with cwd; stdin is bytes/str or None.  -> (rc, stdout, stderr) as text."""
    return CliJob(args, cwd, stdin).result(timeout)


def run_cli_tty(args, cwd, keys=b"y", timeout=300):
    """Run the CLI with a pseudo-terminal as stdin (``fix --check`` reads its answer with click.getchar)."""
    if _fork_mode():
        return CliJob(args, cwd, None, answer=keys.decode()).result(timeout)
    import pty
    import select
    import time

    master, slave = pty.openpty()
    so = b""
    try:
        p = subprocess.Popen([sys.executable, "-m", "sqlfluff"] + list(args), cwd=cwd, stdin=slave,
                             stdout=subprocess.PIPE, stderr=subprocess.PIPE, env=dict(os.environ), close_fds=True)
        # click.getchar switches the terminal to raw mode with TCSAFLUSH, which discards anything typed earlier:
        # the answer must be typed after the prompt has appeared (and is repeated in case the flush races us).
        fd = p.stdout.fileno()
        t_end = time.time() + timeout
        prompted = False
        while time.time() < t_end:
            r, _, _ = select.select([fd], [], [], 0.2)
            if r:
                chunk = os.read(fd, 65536)
                if not chunk:
                    break
                so += chunk
                if b"[Y/n]" in so:
                    prompted = True
            elif prompted:
                os.write(master, keys)
            if p.poll() is not None and not r:
                break
        try:
            rest, se = p.communicate(timeout=max(1, t_end - time.time()))
        except subprocess.TimeoutExpired:
            p.kill()
            rest, se = p.communicate()
            return -9, (so + rest).decode("utf-8", "replace"), se.decode("utf-8", "replace")
        return p.returncode, (so + rest).decode("utf-8", "replace"), se.decode("utf-8", "replace")
    finally:
        os.close(master)
        os.close(slave)


def is_traceback(stderr):
    return "Traceback (most recent call last)" in stderr


# --------------------------------------------------------------------------------------------- in-process runs


def prepare_inprocess():
    """Call before sqlfluff is used in this process.  tqdm starts a monitor *thread* on the first tqdm() call (even with
    disable=True); a process forked while that thread holds tqdm's lock (framework workers, VERIF_CLI_FORK children)
    inherits the lock locked for ever and, through tqdm's process-shared semaphore, blocks its parent and siblings as
    well.  monitor_interval = 0 means the thread is never created."""
    try:
        import tqdm

        tqdm.tqdm.monitor_interval = 0
    except Exception:  # pragma: no cover
        pass


def overrides_of(case, **extra):
    cli = case.get("cli") or {}
    ov = {}
    for k in ("dialect", "rules", "exclude_rules", "ignore"):
        if cli.get(k):
            ov[k] = cli[k]
    if cli.get("disable_noqa"):
        ov["disable_noqa"] = True
    ov.update(extra)
    return ov


def file_config(project, **extra):
    """FluffConfig a Python user gets for this file: every config file from the project root down to the file's
    directory, plus the scenario's command-line settings as overrides.  (from_path walks the directories between the
    process cwd and the file; the harness cwd has no config file and HOME is an empty scratch directory.)"""
    from sqlfluff.core import FluffConfig

    prepare_inprocess()
    return FluffConfig.from_path(os.path.dirname(project.path), overrides=overrides_of(project.case, **extra),
                                 require_dialect=False)


def root_config(project, **extra):
    from sqlfluff.core import FluffConfig

    prepare_inprocess()
    return FluffConfig.from_path(project.root, overrides=overrides_of(project.case, **extra), require_dialect=False)


def vrec(v):
    """Violation object -> plain record."""
    return {"code": v.rule_code(), "line": v.line_no, "pos": v.line_pos, "desc": v.desc(),
            "name": getattr(getattr(v, "rule", None), "name", "") or "", "fixable": bool(v.fixable)}


def ground_truth(case, **extra):
    """Unfiltered violations of the file: in-process lint_paths(fix=True) *without* applying, noqa disabled, read with
    filter_ignore=False / filter_warning=False so that ignore and warnings play no role.  lint_paths (not lint_string)
    so that in-file directives act as they do for a file.  -> dict(violations=[vrec], tree=bool, fixed=str|None)"""
    from sqlfluff.core import Linter

    with Project(case, "gt") as pr:
        # `ignore` and `warnings` are switched off by override as well (not only read around with filter_ignore=False):
        # the ground truth must not depend on how the code under test represents suppressed violations
        # (`ignore = templating` is kept: it is not only a filter, it also makes the templaters substitute undefined
        # variables instead of raising a templating error, so no such error exists in that configuration)
        keep = "templating" if "templating" in str(effective(case).get("ignore") or "") else ""
        gt_over = {"ignore": keep, "warnings": ""}
        gt_over.update(extra)
        lnt = Linter(config=root_config(pr, disable_noqa=True, **gt_over))
        res = lnt.lint_paths((pr.path,), fix=True, apply_fixes=False)
        files = res.paths[0].files
        if not files:
            return {"violations": None, "tree": False, "fixed": None, "missing": True}
        lf = files[0]
        vs = [vrec(v) for v in lf.get_violations(filter_ignore=False, filter_warning=False)]
        fixed = None
        if lf.tree is not None and lf.templated_file is not None:
            try:
                fixed = lf.fix_string()[0]
            except Exception:
                fixed = None
        return {"violations": vs, "tree": lf.tree is not None, "fixed": fixed, "missing": False}


# --------------------------------------------------------------------------------------------- reference models

_NOQA_RE = re.compile(r"--\s*noqa(?P<rest>\s*:\s*(?P<body>[^\n]*?))?\s*$")


def parse_noqa(sql):
    """The generator only writes ``-- noqa``, ``-- noqa: A,B``, ``-- noqa: disable=A,B|all``, ``-- noqa: enable=...``
    at the end of a line; this reads exactly those forms back (so that a minimised / hand-written replay still
    carries its own meaning).  -> list of (line_no, action, rules) with action in plain/disable/enable and rules None
    (= everything) or a tuple of codes."""
    out = []
    for i, line in enumerate(sql.split("\n"), 1):
        m = _NOQA_RE.search(line)
        if not m:
            continue
        body = (m.group("body") or "").strip() if m.group("rest") else ""
        action = "plain"
        if body.startswith("disable=") or body.startswith("enable="):
            action, body = body.split("=", 1)
        if not body:
            rules = None
        else:
            rules = tuple(r.strip() for r in body.split(",") if r.strip())
            if rules == ("all",) and action != "plain":
                rules = None
        out.append((i, action, rules))
    return out


def noqa_hides(directives, code, line):
    """Documented meaning: a plain directive hides matching violations on its own line; disable=... hides matching
    violations from its line on until a matching enable=...."""
    state = False
    for ln, action, rules in directives:
        covers = rules is None or code in rules
        if not covers:
            continue
        if action == "plain":
            if ln == line:
                return True
        elif ln <= line:
            state = action == "disable"
    return state


IGNORE_CATEGORY = {"PRS": "parsing", "TMP": "templating", "LXR": "lexing"}


def _split(v):
    if not v:
        return []
    return [x.strip() for x in str(v).split(",") if x.strip()]


def suppression(v, eff, directives):
    """Why a violation does not count: "ignore" | "noqa" | "warning" | None.   v: vrec; eff: effective settings."""
    cat = IGNORE_CATEGORY.get(v["code"], "linting")
    if cat in _split(eff.get("ignore")):
        return "ignore"
    if not eff.get("disable_noqa") and noqa_hides(directives, v["code"], v["line"]):
        return "noqa"
    w = _split(eff.get("warnings"))
    if v["code"] in w or (v.get("name") and v["name"] in w):
        return "warning"
    return None


def is_tmp_prs(v):
    return v["code"] in ("TMP", "PRS")


def exit_code_model(command, violations, eff, directives, nofail=False):
    """Written from the statement of C22.

    lint: 1 iff some violation is neither suppressed nor a warning.
    fix/format: 1 iff such a violation remains unfixable (it has no fix, or fixing is blocked by a TMP/PRS error -
    suppressed or not - while fix_even_unparsable is off), or a TMP/PRS error blocks fixing and is not suppressed.
    """
    live = [v for v in violations if suppression(v, eff, directives) is None]
    if command == "lint":
        return 0 if nofail or not live else 1
    feu = bool(eff.get("fix_even_unparsable")) and command == "fix"
    blocked = any(is_tmp_prs(v) for v in violations) and not feu
    for v in live:
        if is_tmp_prs(v):
            if blocked:
                return 1
        elif v["code"] == "LXR":
            continue
        elif blocked or not v["fixable"]:
            return 1
    return 0


def tp_state(violations, eff, directives):
    tp = [v for v in violations if is_tmp_prs(v)]
    if not tp:
        return "none"
    codes = "+".join(sorted({v["code"] for v in tp}))
    kinds = {suppression(v, eff, directives) for v in tp}
    if None in kinds:
        return "live:" + codes
    return "suppressed(%s):%s" % ("+".join(sorted(kinds)), codes)


def lint_state(violations, eff, directives):
    lint = [v for v in violations if v["code"] not in ("TMP", "PRS", "LXR")]
    if not lint:
        return "none"
    live = [v for v in lint if suppression(v, eff, directives) is None]
    if live:
        return "live-unfixable" if any(not v["fixable"] for v in live) else "live-fixable"
    kinds = {suppression(v, eff, directives) for v in lint}
    if "warning" in kinds:
        fixable_warning = any(v["fixable"] for v in lint if suppression(v, eff, directives) == "warning")
        return "warning-only" + ("(fixable)" if fixable_warning else "")
    return "suppressed-only(%s)" % "+".join(sorted(kinds))


CONFIG_FILENAMES = (".sqlfluff", "setup.cfg", "tox.ini", "pep8.ini", "pyproject.toml", ".sqlfluffignore")


def assert_clean_ancestors():
    """In-process runs (cwd = harness directory) make sqlfluff look for config files in every directory between the
    filesystem root and the project; CLI runs (cwd = project) do not.  A stray config file above the scratch root
    would make the two disagree for reasons that are not sqlfluff's: refuse to run (harness error) instead."""
    d = os.path.abspath(scratch_root())
    seen = []
    while True:
        for f in CONFIG_FILENAMES:
            if os.path.isfile(os.path.join(d, f)) and d != os.path.abspath(os.getcwd()):
                seen.append(os.path.join(d, f))
        parent = os.path.dirname(d)
        if parent == d:
            break
        d = parent
    assert not seen, "config files above the scratch directory would leak into in-process runs: %s" % seen


def selftest_models():
    prepare_inprocess()
    assert_clean_ancestors()
    d = parse_noqa("a -- noqa\nb  -- noqa: PRS,TMP\n-- noqa: disable=all\nc\n-- noqa: enable=all\nd --noqa:LT01\n"
                   "e -- noqa: disable=LT01\nf")
    assert d == [(1, "plain", None), (2, "plain", ("PRS", "TMP")), (3, "disable", None), (5, "enable", None),
                 (6, "plain", ("LT01",)), (7, "disable", ("LT01",))], d
    assert noqa_hides(d, "LT01", 1) and noqa_hides(d, "PRS", 2) and not noqa_hides(d, "LT01", 2)
    assert noqa_hides(d, "CP01", 4) and noqa_hides(d, "CP01", 3) and not noqa_hides(d, "CP01", 5)
    assert noqa_hides(d, "LT01", 6) and not noqa_hides(d, "CP01", 6)
    assert noqa_hides(d, "LT01", 8) and not noqa_hides(d, "CP01", 8)
    assert parse_noqa("select 1 -- not a noqa: x") == []
    V = lambda code, line=1, fixable=True, name="": {"code": code, "line": line, "pos": 1, "fixable": fixable, "name": name}
    # lint
    assert exit_code_model("lint", [], {}, []) == 0
    assert exit_code_model("lint", [V("LT01")], {}, []) == 1
    assert exit_code_model("lint", [V("LT01")], {}, [], nofail=True) == 0
    assert exit_code_model("lint", [V("LT01")], {"warnings": "LT01"}, []) == 0
    assert exit_code_model("lint", [V("LT01", name="layout.spacing")], {"warnings": "layout.spacing"}, []) == 0
    assert exit_code_model("lint", [V("LT01"), V("CP01")], {"warnings": "LT01"}, []) == 1
    assert exit_code_model("lint", [V("LT01")], {"ignore": "linting"}, []) == 0
    assert exit_code_model("lint", [V("PRS")], {"ignore": "linting"}, []) == 1
    assert exit_code_model("lint", [V("PRS")], {"ignore": "parsing"}, []) == 0
    assert exit_code_model("lint", [V("TMP")], {"ignore": "parsing"}, []) == 1
    assert exit_code_model("lint", [V("PRS", 2)], {}, [(2, "plain", ("PRS",))]) == 0
    assert exit_code_model("lint", [V("PRS", 2)], {"disable_noqa": True}, [(2, "plain", ("PRS",))]) == 1
    assert exit_code_model("lint", [V("PRS", 3)], {}, [(2, "plain", ("PRS",))]) == 1
    # fix
    assert exit_code_model("fix", [V("LT01")], {}, []) == 0
    assert exit_code_model("fix", [V("AM01", fixable=False)], {}, []) == 1
    assert exit_code_model("fix", [V("AM01", fixable=False)], {"warnings": "AM01"}, []) == 0
    assert exit_code_model("fix", [V("AM01", fixable=False)], {"ignore": "linting"}, []) == 0
    assert exit_code_model("fix", [V("AM01", 4, fixable=False)], {}, [(4, "plain", None)]) == 0
    assert exit_code_model("fix", [V("PRS")], {}, []) == 1
    assert exit_code_model("fix", [V("PRS")], {"ignore": "parsing"}, []) == 0
    assert exit_code_model("fix", [V("PRS")], {"warnings": "PRS"}, []) == 0
    assert exit_code_model("fix", [V("PRS"), V("LT01")], {"ignore": "parsing"}, []) == 1  # fix discarded -> unfixable
    assert exit_code_model("fix", [V("PRS"), V("LT01")], {"ignore": "parsing", "warnings": "LT01"}, []) == 0
    assert exit_code_model("fix", [V("PRS"), V("LT01")], {"fix_even_unparsable": True, "ignore": "parsing"}, []) == 0
    assert exit_code_model("fix", [V("PRS"), V("LT01")], {"fix_even_unparsable": True}, []) == 0  # nothing blocks fixing
    assert exit_code_model("format", [V("PRS"), V("LT01")], {"fix_even_unparsable": True, "ignore": "parsing"}, []) == 1
    assert exit_code_model("fix", [V("TMP"), V("LT01", 2)], {}, [(1, "plain", ("TMP",)), (2, "plain", ("LT01",))]) == 0
    # effective settings
    c = {"cfg": {"rules": "a", "ignore": "x"}, "sub": {"rules": "b"}, "fname": "sub/q.sql", "cli": {"ignore": "parsing"}}
    assert effective(c) == {"rules": "b", "ignore": "parsing"}
    assert effective(dict(c, fname="q.sql"))["rules"] == "a"
    assert render_cfg({"dialect": "ansi"}, {"capitalisation.keywords": {"capitalisation_policy": "lower"}}) == (
        "[sqlfluff]\ndialect = ansi\n\n[sqlfluff:rules:capitalisation.keywords]\ncapitalisation_policy = lower\n")
    assert compose([("clean1", None), ("prs_where", "PRS")]) == "SELECT a FROM t1;\nSELECT a FROM t1 WHERE;  -- noqa: PRS\n"
