"""Runner shared by every check.

A check module (checks/Cnn.py) exposes ``CHECK``, an instance of a ``Check`` subclass:

    id, level, rule                       - metadata for evidence
    selftest()                            - oracle self-test; raising => exit 2
    pinned(tier)     -> iterable of cases - deterministic cases (corpus slices, enumerations)
    strategy(tier)   -> hypothesis strategy of cases, or None
    examples(tier)   -> generated examples per shard
    run_case(case)   -> Outcome

Cases are JSON-serialisable dicts, so that any failing case can be written out as a replay file
and re-executed without Hypothesis (``./run Cnn --replay FILE``).

Failures are reduced to signatures (dicts).  ``known_findings.json`` lists open/fixed genuine
defects; a failure whose signature is matched by an *open* finding is counted and the search
continues, any other failure is minimised, written to out/Cnn/ and reported as a VIOLATION.
"""
from __future__ import annotations

import hashlib
import json
import multiprocessing as mp
import os
import sys
import time
import traceback
from collections import Counter
from dataclasses import dataclass, field
from typing import Any, Callable, Dict, Iterable, List, Optional

VERIF = os.path.dirname(os.path.dirname(os.path.abspath(__file__)))
NSHARDS = int(os.environ.get("VERIF_SHARDS", "16"))
# development aid for loaded machines: stretches the wall-clock safety nets (never the case counts)
BUDGET_MULT = float(os.environ.get("VERIF_BUDGET_MULT", "1") or 1)
THOROUGH_FACTOR = int(os.environ.get("VERIF_THOROUGH_FACTOR", "3") or 3)


# --------------------------------------------------------------------------- outcome


@dataclass
class Outcome:
    fails: List[Dict[str, Any]] = field(default_factory=list)  # {"sig": {...}, "detail": str}
    nontrivial: bool = False
    labels: List[str] = field(default_factory=list)
    excluded: Optional[str] = None  # reason when the case is outside the property's domain
    info: Optional[Any] = None  # small extra shown in samples

    def fail(self, detail: str = "", **sig):
        self.fails.append({"sig": sig, "detail": str(detail)[:600]})
        return self

    def label(self, *labels):
        self.labels.extend(labels)
        return self


class Check:
    id = "C00"
    level = "exploration"
    rule = ""
    assumptions: List[str] = []
    shrink_fields = ("sql", "src", "source", "text")
    shrink_budget = 120
    thorough_pinned = False  # see _worker

    def selftest(self):
        pass

    def pinned(self, tier) -> Iterable[dict]:
        return ()

    def strategy(self, tier):
        return None

    def examples(self, tier) -> int:
        return 0

    def run_case(self, case) -> Outcome:
        raise NotImplementedError

    # optional: extra coverage keys computed by the parent after the merge
    def finish(self, tier, merged) -> dict:
        return {}

    # wall-clock safety net for the generated part (seconds); case counts are the real bound
    def budget_s(self, tier) -> float:
        return 150.0 if tier == "quick" else 1500.0


# --------------------------------------------------------------------------- known findings


def load_known_findings(prop: str) -> List[dict]:
    path = os.path.join(VERIF, "known_findings.json")
    if not os.path.exists(path):
        return []
    data = json.load(open(path))
    return [f for f in data.get("findings", []) if prop in f.get("properties", [f.get("property")])]


def sig_matches(match: dict, sig: dict) -> bool:
    for k, v in match.items():
        sv = sig.get(k)
        if isinstance(v, list):
            if sv not in v:
                return False
        elif isinstance(v, str) and v.startswith("~"):
            if not isinstance(sv, str) or v[1:] not in sv:
                return False
        elif sv != v:
            return False
    return True


def find_known(findings: List[dict], sig: dict, status="open") -> Optional[dict]:
    for f in findings:
        if f.get("status") != status:
            continue
        matches = f["match"] if isinstance(f["match"], list) else [f["match"]]
        for m in matches:
            if sig_matches(m, sig):
                return f
    return None


# --------------------------------------------------------------------------- helpers


def digest(case) -> str:
    return hashlib.sha1(json.dumps(case, sort_keys=True, default=str).encode()).hexdigest()


def sig_key(sig: dict) -> str:
    return json.dumps(sig, sort_keys=True, default=str)


def compact(case, limit=400):
    """Case rendered for evidence samples: long strings are cut."""
    if isinstance(case, dict):
        return {k: compact(v, limit) for k, v in case.items()}
    if isinstance(case, (list, tuple)):
        return [compact(v, limit) for v in list(case)[:12]]
    if isinstance(case, str) and len(case) > limit:
        return case[:limit] + "...<%d chars>" % len(case)
    return case


class Fragment:
    """What one worker saw."""

    def __init__(self, check: Check, findings: List[dict]):
        self.check = check
        self.findings = findings
        self.evaluations = 0
        self.nontrivial = set()
        self.labels = Counter()
        self.excluded = Counter()
        self.known_hit = Counter()
        self.new_fails: Dict[str, dict] = {}  # sig_key -> {sig, detail, case}
        self.samples_nt: List[Any] = []
        self.samples_other: List[Any] = []
        self.harness_errors: List[str] = []
        self.origin = Counter()
        self.budget_hit = False

    def record(self, case, origin: str):
        try:
            out = self.check.run_case(case)
        except Exception:  # harness error: never a violation
            tb = traceback.format_exc()
            if len(self.harness_errors) < 5:
                self.harness_errors.append(tb[-1500:] + "\nCASE: " + json.dumps(compact(case))[:600])
            self.labels["harness_error"] += 1
            self.evaluations += 1
            return None
        self.evaluations += 1
        self.origin[origin] += 1
        if out.excluded:
            self.excluded[out.excluded] += 1
        for lab in out.labels:
            self.labels[lab] += 1
        if out.nontrivial:
            d = digest(case)
            if d not in self.nontrivial:
                self.nontrivial.add(d)
                if len(self.samples_nt) < 3:
                    self.samples_nt.append({"case": compact(case), "labels": out.labels[:8], "info": out.info})
        elif len(self.samples_other) < 2:
            self.samples_other.append({"case": compact(case), "labels": out.labels[:8], "info": out.info})
        for f in out.fails:
            kf = find_known(self.findings, f["sig"], "open")
            if kf is not None:
                self.known_hit[kf["id"]] += 1
                continue
            k = sig_key(f["sig"])
            prev = self.new_fails.get(k)
            size = len(json.dumps(case, default=str))
            if prev is None or size < prev["size"]:
                self.new_fails[k] = {"sig": f["sig"], "detail": f["detail"], "case": case, "size": size,
                                     "origin": origin}
        return out

    def to_dict(self):
        return {
            "evaluations": self.evaluations,
            "nontrivial": sorted(self.nontrivial),
            "labels": dict(self.labels),
            "excluded": dict(self.excluded),
            "known_hit": dict(self.known_hit),
            "new_fails": self.new_fails,
            "samples_nt": self.samples_nt,
            "samples_other": self.samples_other,
            "harness_errors": self.harness_errors,
            "origin": dict(self.origin),
            "budget_hit": self.budget_hit,
        }


def _worker(check_id: str, tier: str, seed: int, shard: int, nshards: int, conn):
    try:
        import logging

        logging.disable(logging.CRITICAL)
        check = load_check(check_id)
        findings = load_known_findings(check.id)
        frag = Fragment(check, findings)
        t_end = time.time() + check.budget_s(tier) * BUDGET_MULT
        # The larger pinned enumerations of the thorough tier are used only by the checks whose thorough baseline was
        # established on the unchanged tree in the build round (thorough_pinned = True); the others deepen only the
        # seeded, generated part.
        pinned_tier = tier if (tier == "quick" or getattr(check, "thorough_pinned", False)) else "quick"
        for i, case in enumerate(check.pinned(pinned_tier)):
            if i % nshards != shard:
                continue
            if time.time() > t_end:
                frag.budget_hit = True
                break
            frag.record(case, "pinned")
        strat = check.strategy(tier)
        n = check.examples(tier)
        if tier == "thorough":
            # The thorough tier explores the same generator domain more deeply, but only as far as its baseline
            # on the unchanged tree could be established in the build round (DESIGN 1.2): THOROUGH_FACTOR x quick.
            n = min(n, THOROUGH_FACTOR * max(1, check.examples("quick")))
        if strat is not None and n > 0:
            import hypothesis
            from hypothesis import HealthCheck, Phase, given, settings

            @hypothesis.seed(seed * 1_000_003 + shard)
            @settings(
                max_examples=n,
                database=None,
                deadline=None,
                derandomize=False,
                report_multiple_bugs=False,
                phases=[Phase.generate],
                suppress_health_check=list(HealthCheck),
            )
            @given(strat)
            def prop(case):
                if time.time() > t_end:
                    frag.budget_hit = True
                    return
                frag.record(case, "generated")

            prop()
        conn.send(frag.to_dict())
    except BaseException:
        conn.send({"fatal": traceback.format_exc()})
    finally:
        conn.close()


def load_check(check_id: str) -> Check:
    import importlib

    mod = importlib.import_module("checks." + check_id)
    return mod.CHECK


# --------------------------------------------------------------------------- minimiser


def _ddmin(s: str, test: Callable[[str], bool], budget: List[int]) -> str:
    """Greedy delta debugging on lines, then on characters, under an evaluation budget."""
    for splitter in ("lines", "chars"):
        units = s.splitlines(keepends=True) if splitter == "lines" else list(s)
        n = 2
        while len(units) >= 2 and budget[0] > 0:
            chunk = max(1, len(units) // n)
            reduced = False
            for i in range(0, len(units), chunk):
                cand = units[:i] + units[i + chunk:]
                if budget[0] <= 0:
                    break
                budget[0] -= 1
                if cand and test("".join(cand)):
                    units = cand
                    n = max(n - 1, 2)
                    reduced = True
                    break
            if not reduced:
                if chunk == 1:
                    break
                n = min(len(units), n * 2)
        s = "".join(units)
    return s


def minimise(check: Check, case: dict, sig: dict) -> dict:
    target = sig_key(sig)
    budget = [check.shrink_budget]

    def still(c) -> bool:
        try:
            out = check.run_case(c)
        except Exception:
            return False
        return any(sig_key(f["sig"]) == target for f in out.fails)

    case = json.loads(json.dumps(case, default=str))
    for fld in check.shrink_fields:
        if isinstance(case.get(fld), str) and len(case[fld]) > 1:
            def test(s, fld=fld):
                c = dict(case)
                c[fld] = s
                return still(c)
            case[fld] = _ddmin(case[fld], test, budget)
    return case


# --------------------------------------------------------------------------- main


def run_replays(check: Check, findings: List[dict], lines: List[str]):
    """Replay tier: pinned regression inputs + reproducers of known findings."""
    rdir = os.path.join(VERIF, "replays", check.id)
    violations = []
    n = 0
    still_open = {}
    if os.path.isdir(rdir):
        for name in sorted(os.listdir(rdir)):
            if not name.endswith(".json"):
                continue
            path = os.path.join(rdir, name)
            rec = json.load(open(path))
            n += 1
            try:
                out = check.run_case(rec["case"])
            except Exception:
                lines.append("HARNESS-ERROR replay %s: %s" % (name, traceback.format_exc()[-400:]))
                continue
            for f in out.fails:
                kf = find_known(findings, f["sig"], "open")
                if kf is not None:
                    still_open[kf["id"]] = kf
                else:
                    violations.append((path, f))
    for kf in still_open.values():
        lines.append("KNOWN-FINDING: property=%s %s [%s]" % (check.id, kf["what"], kf["id"]))
    return n, violations, sorted(still_open)


def _no_tqdm_monitor():
    """tqdm starts a monitor thread the first time a bar is created (sqlfluff's lint_paths does, even when the
    bar is disabled); a thread in the parent makes the forked shard workers deadlock on inherited locks."""
    try:
        import tqdm

        tqdm.tqdm.monitor_interval = 0
    except Exception:
        pass


def main(argv=None):
    argv = list(sys.argv[1:] if argv is None else argv)
    _no_tqdm_monitor()
    if not argv:
        print("usage: run Cnn quick|thorough | run Cnn --replay FILE", file=sys.stderr)
        return 2
    check_id = argv[0]
    os.environ.setdefault("PYTHONHASHSEED", "0")
    import logging

    logging.disable(logging.CRITICAL)
    try:
        check = load_check(check_id)
    except Exception:
        traceback.print_exc()
        return 2
    findings = load_known_findings(check.id)

    if len(argv) >= 3 and argv[1] == "--replay":
        rec = json.load(open(argv[2]))
        out = check.run_case(rec["case"] if "case" in rec else rec)
        bad = 0
        for f in out.fails:
            kf = find_known(findings, f["sig"], "open")
            if kf:
                print("KNOWN-FINDING: property=%s %s [%s]" % (check.id, kf["what"], kf["id"]))
            else:
                bad += 1
                print("FAIL sig=%s detail=%s" % (json.dumps(f["sig"]), f["detail"]))
        print("labels=%s nontrivial=%s excluded=%s" % (out.labels, out.nontrivial, out.excluded))
        if bad:
            print("VIOLATION property=%s replay=%s" % (check.id, argv[2]))
            return 1
        return 0

    tier = argv[1] if len(argv) > 1 else os.environ.get("VERIF_TIER", "quick")
    if tier not in ("quick", "thorough"):
        print("unknown tier", tier, file=sys.stderr)
        return 2
    seed = int(os.environ.get("VERIF_SEED", "1") or 1)
    t0 = time.time()
    lines: List[str] = []
    try:
        check.selftest()
    except Exception:
        traceback.print_exc()
        print("oracle self-test failed", file=sys.stderr)
        return 2

    n_replay, replay_viol, kf_open = run_replays(check, findings, lines)

    ctx = mp.get_context("fork")
    nshards = NSHARDS
    procs = []
    for shard in range(nshards):
        parent, child = ctx.Pipe(duplex=False)
        p = ctx.Process(target=_worker, args=(check_id, tier, seed, shard, nshards, child))
        p.start()
        child.close()
        procs.append((p, parent))
    frags = []
    fatal = []
    # Watchdog: a worker that has not reported long after its own budget is stuck (seen under heavy load:
    # a process-shared lock inherited over fork); it is terminated and its shard counted as lost, which makes
    # the run inconclusive for that shard but never a violation.
    t_give_up = time.time() + check.budget_s(tier) * BUDGET_MULT * 3 + 300
    lost = 0
    for p, conn in procs:
        try:
            if conn.poll(max(1.0, t_give_up - time.time())):
                d = conn.recv()
            else:
                p.terminate()
                d = {"lost": True}
        except EOFError:
            d = {"fatal": "worker died without reporting (exit %s)" % p.exitcode}
        p.join(10)
        if d.get("lost"):
            lost += 1
        elif "fatal" in d:
            fatal.append(d["fatal"])
        else:
            frags.append(d)
    if fatal or lost > nshards // 2:
        print("HARNESS-ERROR: worker failure (%d lost)\n" % lost + (fatal[0] if fatal else ""), file=sys.stderr)
        return 2
    if lost:
        print("HARNESS-WARNING: %d of %d shards did not report in time and were stopped" % (lost, nshards), file=sys.stderr)

    merged = {
        "evaluations": sum(f["evaluations"] for f in frags) + n_replay,
        "nontrivial": set().union(*[set(f["nontrivial"]) for f in frags]) if frags else set(),
        "labels": sum((Counter(f["labels"]) for f in frags), Counter()),
        "excluded": sum((Counter(f["excluded"]) for f in frags), Counter()),
        "known_hit": sum((Counter(f["known_hit"]) for f in frags), Counter()),
        "origin": sum((Counter(f["origin"]) for f in frags), Counter()),
        "budget_hit": any(f["budget_hit"] for f in frags),
    }
    new_fails: Dict[str, dict] = {}
    for f in frags:
        for k, v in f["new_fails"].items():
            if k not in new_fails or v["size"] < new_fails[k]["size"]:
                new_fails[k] = v
    harness_errors = [e for f in frags for e in f["harness_errors"]]
    samples = []
    for f in frags:
        samples.extend(f["samples_nt"][:1])
    samples = samples[:8]
    for f in frags:
        if len(samples) >= 11:
            break
        samples.extend(f["samples_other"][:1])
    if not samples:
        samples = [{"note": "no generated cases; see replays/%s" % check.id}]

    # report violations
    outdir = os.path.join(VERIF, "out", check.id)
    if os.path.isdir(outdir):  # reproducers of earlier runs are stale
        for name in os.listdir(outdir):
            if name.startswith("viol-"):
                os.unlink(os.path.join(outdir, name))
    nviol = 0
    for path, f in replay_viol:
        nviol += 1
        print("VIOLATION property=%s replay=%s" % (check.id, path))
        print("  sig=%s detail=%s" % (json.dumps(f["sig"], default=str), f["detail"][:300]))
    for k, v in sorted(new_fails.items()):
        nviol += 1
        os.makedirs(outdir, exist_ok=True)
        case = v["case"]
        try:
            if os.environ.get("VERIF_NO_SHRINK") != "1":
                case = minimise(check, case, v["sig"])
        except Exception:
            pass
        path = os.path.join(outdir, "viol-%s.json" % hashlib.sha1(k.encode()).hexdigest()[:12])
        json.dump({"property": check.id, "sig": v["sig"], "detail": v["detail"], "case": case,
                   "origin": v["origin"], "seed": seed, "tier": tier}, open(path, "w"), indent=1, default=str)
        print("VIOLATION property=%s replay=%s" % (check.id, path))
        print("  sig=%s detail=%s" % (json.dumps(v["sig"], default=str), v["detail"][:300]))
    for ln in lines:
        print(ln)
    for e in harness_errors[:3]:
        print("HARNESS-ERROR (case skipped):\n" + e, file=sys.stderr)

    wall = time.time() - t0
    cov = {
        "evaluations": int(merged["evaluations"]),
        "distinct_nontrivial": len(merged["nontrivial"]),
        "rule": check.rule,
        "samples": samples,
        "classes": dict(merged["labels"].most_common(60)),
        "origin": dict(merged["origin"]),
        "replayed_pinned_files": n_replay,
        "excluded": dict(merged["excluded"]),
        "known_findings_hit": dict(merged["known_hit"]),
        "known_findings_still_reproducing": kf_open,
        "harness_errors": int(merged["labels"].get("harness_error", 0)),
        "inconclusive_budget": bool(merged["budget_hit"]) or lost > 0,
        "shards_lost": lost,
        "shards": nshards,
    }
    try:
        cov.update(check.finish(tier, merged) or {})
    except Exception:
        traceback.print_exc()
    ev = {
        "property_id": check.id,
        "tier": tier,
        "seed": seed,
        "level": check.level,
        "coverage": cov,
        "assumptions": list(check.assumptions),
        "wall_s": round(wall, 2),
        "violations": nviol,
    }
    os.makedirs(os.path.join(VERIF, "evidence"), exist_ok=True)
    tmp = os.path.join(VERIF, "evidence", check.id + ".json.tmp")
    json.dump(ev, open(tmp, "w"), indent=1, default=str)
    os.replace(tmp, os.path.join(VERIF, "evidence", check.id + ".json"))
    print("%s %s seed=%d evaluations=%d distinct_nontrivial=%d known_hit=%s excluded=%s violations=%d wall=%.1fs%s" % (
        check.id, tier, seed, cov["evaluations"], cov["distinct_nontrivial"], dict(merged["known_hit"]),
        dict(merged["excluded"]), nviol, wall, " (budget hit: inconclusive for the remainder)" if merged["budget_hit"] else ""))
    herr = cov["harness_errors"]
    if herr and herr > max(3, 0.02 * cov["evaluations"]):
        print("too many harness errors (%d)" % herr, file=sys.stderr)
        return 2
    if cov["distinct_nontrivial"] < 2 and nviol == 0:
        print("generator health: fewer than 2 non-trivial cases", file=sys.stderr)
        return 2
    return 1 if nviol else 0


if __name__ == "__main__":
    sys.exit(main())
