"""Shared domain and observation for the lint-level family (C04, C05, C23, C33)."""
from __future__ import annotations

from hypothesis import strategies as st

from vlib import gens, lexparse
from vlib.sf import FORMAT_RULES, Crash, guard, innermost_frame, mkcfg

RULE_SELECTIONS = ["all", "core", "layout", FORMAT_RULES, "capitalisation", "structure", "references,aliasing",
                   "ambiguous,convention", "LT01,LT02,LT05", "ST08,ST05,ST06", "RF01,RF02,RF03", "AL01,AL05,AL09", "JJ01,LT12"]

# non-default rule / layout options (valid values taken from each rule's config_keywords validation)
RULE_OPTIONS = [
    {},
    {"capitalisation.keywords": {"capitalisation_policy": "lower"}, "capitalisation.identifiers": {"extended_capitalisation_policy": "upper"}},
    {"layout:type:comma": {"line_position": "leading"}},
    {"layout:type:binary_operator": {"line_position": "trailing"}, "indentation": {"indent_unit": "tab"}},
    {"indentation": {"tab_space_size": 2, "indented_joins": True, "indented_ctes": True, "indented_using_on": False}},
    {"indentation": {"allow_implicit_indents": True, "indented_on_contents": False, "indented_then": False}},
    {"aliasing.table": {"aliasing": "implicit"}, "aliasing.column": {"aliasing": "implicit"}},
    {"convention.not_equal": {"preferred_not_equal_style": "ansi"}, "convention.quoted_literals": {"preferred_quoted_literal_style": "double_quotes"}},
    {"references.consistent": {"single_table_references": "qualified"}, "structure.subquery": {"forbid_subquery_in": "both"}},
    {"ambiguous.column_references": {"group_by_and_order_by_style": "explicit"}, "convention.select_trailing_comma": {"select_clause_trailing_comma": "require"}},
    {"layout.long_lines": {"ignore_comment_lines": True, "ignore_comment_clauses": True}, "convention.terminator": {"multiline_newline": True, "require_final_semicolon": True}},
    {"layout.select_targets": {"wildcard_policy": "multiple"}, "layout.keyword_newline": {"keyword_line_position": "leading"}},
    {"convention.casting_style": {"preferred_type_casting_style": "shorthand"}, "convention.count_rows": {"prefer_count_1": True}},
]


def stress_sql(kind, n):
    if kind == "brackets":
        return "SELECT " + "(" * n + "1" + ")" * n + "\n"
    if kind == "unbalanced":
        return "SELECT " + "(" * n + "1" + ")" * (n // 2) + "\n"
    if kind == "case":
        return "SELECT " + "CASE WHEN a THEN " * n + "1" + " END" * n + " FROM t\n"
    if kind == "operators":
        return "SELECT " + " + ".join(["a"] * n) + " FROM t\n"
    if kind == "subquery":
        return "SELECT * FROM " + "(SELECT * FROM " * n + "t" + ")" * n + "\n"
    if kind == "wide":
        return "SELECT " + ", ".join("c%d" % i for i in range(n)) + " FROM t\n"
    if kind == "functions":
        return "SELECT " + "f(" * n + "x" + ")" * n + "\n"
    return "SELECT 1\n"


@st.composite
def stress_case(draw, tier="quick"):
    kind = draw(st.sampled_from(["brackets", "unbalanced", "case", "operators", "subquery", "wide", "functions"]))
    # long operator chains and wide select lists are slow to lint (50 terms: >10 s), nesting hits the depth limit fast
    if kind == "operators":
        n = draw(st.integers(1, 25 if tier == "quick" else 45))
    elif kind == "wide":
        n = draw(st.integers(1, 60 if tier == "quick" else 150))
    else:
        n = draw(st.one_of(st.integers(1, 45), st.integers(45, 700 if tier == "quick" else 3000)))
    limits = draw(st.sampled_from([{}, {}, {"max_parse_depth": 20}, {"max_parse_depth": 255}, {"max_parse_nodes": 50},
                                   {"max_parse_nodes": 500, "max_parse_depth": 30}]))
    return {"dialect": draw(st.sampled_from(["ansi", "postgres", "tsql", "bigquery", "snowflake", "sqlite"])),
            "templater": "raw", "sql": stress_sql(kind, n), "origin": "stress:" + kind, "limits": limits, "stress_n": n}


def lint_domain(tier, with_stress=True, with_templates=True, maxsize=None):
    maxsize = maxsize or (500 if tier == "quick" else 1200)
    parts = [gens.corpus_case(maxsize=maxsize, mutate=True), gens.corpus_case(maxsize=maxsize, mutate=True),
             gens.corpus_case(maxsize=maxsize, mutate=False), gens.text_case(max_size=120),
             gens.gsql_case(distinct=True, uniform=True)]
    if with_templates:
        parts += [gens.jinja_case(uniform=True), gens.jinja_case(undefined=True, uniform=True), gens.pyfmt_case(allow_invalid=True),
                  gens.placeholder_case()]
    if with_stress:
        parts.append(stress_case(tier))
    base = st.one_of(*parts)
    return st.tuples(base, st.sampled_from(RULE_SELECTIONS), st.sampled_from(RULE_OPTIONS), st.booleans()).map(
        lambda t: dict(t[0], rules=t[1], rule_options=t[2], fix=t[3]))


def config_for(case, **extra):
    over = dict(case.get("limits") or {})
    over.update(extra)
    if case.get("rules"):
        over["rules"] = case["rules"]
    return mkcfg(dialect=case.get("dialect", "ansi"), templater=case.get("templater", "raw"), context=case.get("context"),
                 param_style=case.get("param_style"), dotted=case.get("dotted"), rule_configs=case.get("rule_options") or None,
                 **over)


class InternalErrors:
    """Records exceptions that rules swallow (BaseRule._log_critical_errors is called with the exception)."""

    def __init__(self):
        self.seen = []

    def __enter__(self):
        from sqlfluff.core.rules.base import BaseRule

        self.BaseRule = BaseRule
        # NOTE: keep the raw class attribute (it is a staticmethod): putting back what getattr() returns would
        # turn it into an ordinary method and every later internal error would raise TypeError
        self.orig = BaseRule.__dict__["_log_critical_errors"]
        rec = self

        def hook(self_, error):
            rec.seen.append({"rule": getattr(self_, "code", "?"), "exc": type(error).__name__,
                             "frame": innermost_frame(error), "msg": str(error)[:200]})
            return None  # the original only prints to stderr

        BaseRule._log_critical_errors = hook
        return self

    def __exit__(self, *a):
        setattr(self.BaseRule, "_log_critical_errors", self.orig)


def lint(case, fix=None, **extra):
    """Linter.lint_string through the public object. Returns (LintedFile|Crash, config|None, internal_errors)."""
    from sqlfluff.core import Linter

    try:
        cfg = config_for(case, **extra)
        lnt = Linter(config=cfg)
    except Exception as e:
        c = Crash(e)
        c.config_error = True
        return c, None, []
    do_fix = case.get("fix", False) if fix is None else fix
    with InternalErrors() as ie:
        res = guard(lnt.lint_string, case["sql"], fname="t.sql", fix=do_fix)
    return res, cfg, ie.seen


def pinned_lint_cases(tier, per_dialect=2, mutants_per_dialect=3, templates=60, salt=0, fix_mode=None):
    """Seed-independent backbone of the lint-level checks: fixture slice + fixed mutants + fixed generated
    templates/queries, each with a rule selection / option set / mode picked by index."""
    if tier != "quick":
        per_dialect, mutants_per_dialect, templates = per_dialect * 10, mutants_per_dialect * 8, templates * 10
    i = 0
    srcs = [gens.corpus_slice(per_dialect, maxsize=500 if tier == "quick" else 1500, offset=salt),
            gens.fixed_mutants(mutants_per_dialect, maxsize=500 if tier == "quick" else 1200, salt="m%d" % salt),
            gens.fixed_templates(templates, salt=salt)]
    for src in srcs:
        for c in src:
            c.setdefault("templater", "raw")
            c["rules"] = RULE_SELECTIONS[i % len(RULE_SELECTIONS)] if i % 3 else "all"
            c["rule_options"] = RULE_OPTIONS[(i // 3) % len(RULE_OPTIONS)] if i % 2 else {}
            c["fix"] = bool(i % 2) if fix_mode is None else fix_mode
            i += 1
            yield c
