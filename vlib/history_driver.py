"""Plays a list of operations against sqlfluff inside ONE python process (used by C27 and C32).

    python history_driver.py JOB.json

JOB = {"world": dir that is watched for modifications, "ops": [op, ...], "out": result file, "probe_keys": [[...], ...]}
The process is started with cwd = <world>/proj and HOME = <world>/home by the caller.  One JSON line per step is
appended to ``out``: {"i": index, "res": result, "changed": [paths whose content/mtime/size/mode changed or that
appeared/disappeared during the step]}.  Nothing here knows what the right answer is.

Operations (all paths relative to the cwd):
  {"op": "lint", "paths": [...], "root": ROOT, "linter": "shared"|"new"}
  {"op": "config", "path": p, "root": ROOT}                      per-file config read back (with and without inline)
  {"op": "lint_string_file", "path": p, "via": "child"|"root", "root": ROOT, "linter": ...}
  {"op": "parse", "path": p, "root": ROOT, "linter": ...}
  {"op": "render", "path": p, "root": ROOT, "linter": ...}
  {"op": "lint_string", "sql": s, "dialect": d, "config_string": ini or null, "linter": ...}
  {"op": "cli", "args": ["lint", ...]}                            python -m sqlfluff ... in a child process
ROOT = {"extra": path or null, "overrides": {...}}  -> FluffConfig.from_root(extra_config_path=, overrides=)
"""
import hashlib
import json
import os
import subprocess
import sys


def snapshot(world):
    snap = {}
    for dp, dns, fns in os.walk(world):
        dns.sort()
        rel = os.path.relpath(dp, world)
        snap[rel + "/"] = ("dir",)
        for fn in sorted(fns):
            p = os.path.join(dp, fn)
            st = os.lstat(p)
            try:
                with open(p, "rb") as fh:
                    h = hashlib.sha1(fh.read()).hexdigest()
            except OSError as e:  # pragma: no cover
                h = "unreadable:" + type(e).__name__
            snap[os.path.join(rel, fn)] = (h, st.st_mtime_ns, st.st_size, st.st_mode)
    return snap


def snap_diff(a, b):
    return sorted(k for k in set(a) | set(b) if a.get(k) != b.get(k))


def vio(v):
    return [v.rule_code(), v.line_no, v.line_pos, v.desc()]


def jsonable(x):
    if isinstance(x, (set, frozenset)):
        return sorted(jsonable(i) for i in x)
    if isinstance(x, (list, tuple)):
        return [jsonable(i) for i in x]
    if isinstance(x, dict):
        return {str(k): jsonable(v) for k, v in x.items()}
    if isinstance(x, (str, int, float, bool)) or x is None:
        return x
    return repr(x)


class Player:
    def __init__(self, probe_keys):
        self.probe_keys = probe_keys
        self.linters = {}

    # -- config / linter construction
    def root(self, spec):
        from sqlfluff.core import FluffConfig

        spec = spec or {}
        return FluffConfig.from_root(extra_config_path=spec.get("extra"), overrides=dict(spec.get("overrides") or {}))

    def linter(self, op):
        from sqlfluff.core import Linter

        key = json.dumps(op.get("root") or {}, sort_keys=True)
        if op.get("linter", "shared") == "shared":
            if key not in self.linters:
                self.linters[key] = Linter(config=self.root(op.get("root")))
            return self.linters[key]
        return Linter(config=self.root(op.get("root")))

    def readback(self, cfg):
        out = []
        for path in self.probe_keys:
            if len(path) == 1:
                out.append(jsonable(cfg.get(path[0])))
            else:
                out.append(jsonable(cfg.get(path[-1], section=path[:-1])))
        return out

    @staticmethod
    def file_record(lf):
        tf = lf.templated_file
        return {"v": [vio(v) for v in lf.get_violations()], "rendered": tf.templated_str if tf is not None else None}

    # -- operations
    def op_lint(self, op):
        lnt = self.linter(op)
        res = lnt.lint_paths(tuple(op["paths"]))
        files = {}
        order = []
        for lf in (lf for d in res.paths for lf in d.files):
            p = os.path.normpath(lf.path)
            order.append(p)
            files[p] = self.file_record(lf)
        return {"files": files, "order": order}

    def op_config(self, op):
        from sqlfluff.core import Linter

        root = self.linter(op).config
        child = root.make_child_from_path(op["path"])
        _, fcfg, _ = Linter.load_raw_file_and_config(op["path"], root)
        return {"child": self.readback(child), "file": self.readback(fcfg), "root": self.readback(root)}

    def op_lint_string_file(self, op):
        lnt = self.linter(op)
        with open(op["path"], encoding="utf8") as fh:
            sql = fh.read()
        if op.get("via", "child") == "child":
            cfg = lnt.config.make_child_from_path(op["path"])
            lf = lnt.lint_string(sql, fname=op["path"], config=cfg)
        else:
            lf = lnt.lint_string(sql, fname=op["path"])
        return {"files": {os.path.normpath(op["path"]): self.file_record(lf)}}

    def op_parse(self, op):
        lnt = self.linter(op)
        out = {}
        for parsed in lnt.parse_path(op["path"]):
            rv = parsed.root_variant()
            tree = rv.tree if rv else None
            out[os.path.normpath(parsed.fname)] = {
                "v": [vio(v) for v in (parsed.violations() if callable(parsed.violations) else parsed.violations)],
                "tree": hashlib.sha1(tree.stringify().encode()).hexdigest() if tree is not None else None,
            }
        return {"parsed": out}

    def op_render(self, op):
        lnt = self.linter(op)
        rendered = lnt.render_file(op["path"], lnt.config)
        return {"rendered": [tf.templated_str for tf in rendered.templated_variants],
                "v": [vio(v) for v in rendered.templater_violations]}

    def op_lint_string(self, op):
        from sqlfluff.core import FluffConfig, Linter

        key = "S" + json.dumps([op.get("dialect"), op.get("config_string")])
        if op.get("linter", "shared") == "shared" and key in self.linters:
            lnt = self.linters[key]
        else:
            if op.get("config_string"):
                cfg = FluffConfig.from_string(op["config_string"], overrides={"dialect": op["dialect"]} if op.get("dialect") else None)
            else:
                cfg = FluffConfig(overrides={"dialect": op["dialect"]})
            lnt = Linter(config=cfg)
            if op.get("linter", "shared") == "shared":
                self.linters[key] = lnt
        lf = lnt.lint_string(op["sql"])
        return {"files": {"<string>": self.file_record(lf)}}

    def op_cli(self, op):
        p = subprocess.run([sys.executable, "-m", "sqlfluff"] + list(op["args"]), stdin=subprocess.DEVNULL,
                           stdout=subprocess.PIPE, stderr=subprocess.PIPE, text=True, timeout=400)
        res = {"rc": p.returncode, "stderr": p.stderr[-400:]}
        if op.get("json"):
            try:
                data = json.loads(p.stdout)
                files = {}
                for rec in data:
                    files[os.path.normpath(rec["filepath"])] = {
                        "v": [[v["code"], v["start_line_no"], v["start_line_pos"], v["description"]] for v in rec["violations"]],
                        "rendered": None}
                res["files"] = files
            except Exception as e:
                res["stdout"] = p.stdout[-2000:]
                res["json_error"] = repr(e)
        else:
            res["stdout_sha1"] = hashlib.sha1(p.stdout.encode()).hexdigest()
            res["stdout_head"] = p.stdout[:300]
        return res

    def play(self, op):
        try:
            return getattr(self, "op_" + op["op"])(op)
        except Exception as e:  # the caller decides what an error means
            import traceback

            tb = traceback.extract_tb(e.__traceback__)
            frame = None
            for fr in tb:
                fn = fr.filename.replace(os.sep, "/")
                if "/sqlfluff/" in fn:
                    frame = fn.split("/sqlfluff/", 1)[1] + ":" + fr.name
            return {"error": type(e).__name__, "msg": str(e)[:300], "frame": frame}


def main():
    job = json.load(open(sys.argv[1]))
    import logging

    logging.disable(logging.CRITICAL)
    world = job["world"]
    player = Player(job.get("probe_keys") or [])
    with open(job["out"], "w") as out:
        before = snapshot(world)
        for i, op in enumerate(job["ops"]):
            res = player.play(op)
            after = snapshot(world)
            out.write(json.dumps({"i": i, "res": res, "changed": snap_diff(before, after)}) + "\n")
            out.flush()
            before = after


if __name__ == "__main__":
    main()
