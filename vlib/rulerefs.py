"""Reference model for rule references (used by C20 and C21).

Written from the property statements and the documentation ("Rules may be referenced by code, name, group, alias
or glob"; precedence on a collision: code > name > group > alias), not from the implementation: the map is built
from plain (code, name, groups, aliases) tuples and globs are matched with ``fnmatch.fnmatchcase``.
"""
from __future__ import annotations

from fnmatch import fnmatchcase
from typing import Dict, Iterable, List, Optional, Sequence, Set, Tuple

SPECIALS = ("PRS", "LXR", "TMP")


def reference_map(tuples: Iterable[Tuple[str, str, Sequence[str], Sequence[str]]]) -> Dict[str, Set[str]]:
    """tuples: (code, name, groups, aliases).  A reference of a lower class that collides with one of a higher
    class is dropped entirely (a colliding alias is "assumed to be wrong")."""
    tuples = list(tuples)
    codes = {t[0]: {t[0]} for t in tuples}
    names: Dict[str, Set[str]] = {}
    for code, name, _, _ in tuples:
        if name and name not in codes:
            names[name] = {code}  # last writer wins, as for any dict of unique names
    groups: Dict[str, Set[str]] = {}
    for code, _, grps, _ in tuples:
        for g in grps:
            if g in codes or g in names:
                continue
            groups.setdefault(g, set()).add(code)
    aliases: Dict[str, Set[str]] = {}
    for code, _, _, als in tuples:
        for a in als:
            if a in codes or a in names or a in groups:
                continue
            aliases.setdefault(a, set()).add(code)
    out: Dict[str, Set[str]] = {}
    for m in (aliases, groups, names, codes):
        out.update(m)
    return out


def expand(ref: str, refmap: Dict[str, Set[str]]) -> Optional[Set[str]]:
    """Codes matched by one reference (exact reference or glob over all references); None when nothing matches."""
    if ref in refmap:
        return set(refmap[ref])
    hit = False
    out: Set[str] = set()
    for k, v in refmap.items():
        if fnmatchcase(k, ref):
            hit = True
            out |= v
    return out if hit else None


def split_list(raw) -> List[str]:
    """Comma separated configuration value -> references (whitespace around items and empty items dropped)."""
    if raw is None:
        return []
    if isinstance(raw, (list, tuple)):
        return list(raw)
    return [p.strip() for p in str(raw).split(",") if p.strip()]


def selection(all_codes: Iterable[str], refmap, rules, exclude) -> Set[str]:
    """Rules that run = matched by the selection (everything when no selection is configured) minus matched by the
    exclusion list."""
    all_codes = set(all_codes)
    allow = split_list(rules)
    deny = split_list(exclude)
    if allow:
        sel: Set[str] = set()
        for r in allow:
            sel |= expand(r, refmap) or set()
    else:
        sel = set(all_codes)
    den: Set[str] = set()
    for r in deny:
        den |= expand(r, refmap) or set()
    return (sel & all_codes) - den


def noqa_rules(refs: Optional[Sequence[str]], refmap, allowed: Optional[Set[str]] = None) -> Optional[Set[str]]:
    """Rule codes named by a noqa directive.  None = names no rule (covers everything).  A reference that matches
    nothing is kept literally, so that PRS / LXR / TMP can be named.  ``allowed``: the codes listed in
    ``disable_noqa_except`` (directives only act for those; the three special codes can be listed too)."""
    if refs is None:
        return None
    m = refmap
    if allowed is not None:
        m = dict(refmap)
        for s in SPECIALS:
            m[s] = {s}
    out: Set[str] = set()
    for r in refs:
        e = expand(r, m)
        if e is None:
            out.add(r)
        else:
            out |= e if allowed is None else (e & allowed)
    return out


def except_allowed(raw: str, refmap) -> Set[str]:
    m = dict(refmap)
    for s in SPECIALS:
        m[s] = {s}
    out: Set[str] = set()
    for r in split_list(raw):
        out |= expand(r, m) or set()
    return out


def selftest():
    t = [("AA01", "grp.one", ("all", "core", "grp"), ("L001", "old")),
         ("AA02", "grp.two", ("all", "grp"), ("L002", "grp.one", "core")),   # alias collides with a name / group
         ("BB01", "core", ("all", "AA01", "other"), ("AA02",))]                # name 'core' beats group 'core'
    m = reference_map(t)
    assert m["AA01"] == {"AA01"} and m["AA02"] == {"AA02"}, m       # code beats group / alias
    assert m["grp.one"] == {"AA01"}                                   # name beats alias
    assert m["core"] == {"BB01"}                                      # name beats group and alias
    assert m["grp"] == {"AA01", "AA02"} and m["all"] == {"AA01", "AA02", "BB01"}
    assert m["other"] == {"BB01"} and m["L002"] == {"AA02"} and m["old"] == {"AA01"}
    assert expand("A*", m) == {"AA01", "AA02"} and expand("L00?", m) == {"AA01", "AA02"}
    assert expand("grp*", m) == {"AA01", "AA02"} and expand("zz", m) is None and expand("aa01", m) is None
    assert selection(m["all"], m, None, None) == {"AA01", "AA02", "BB01"}
    assert selection(m["all"], m, " grp , ,zz", "L002") == {"AA01"}
    assert selection(m["all"], m, "all", "A*") == {"BB01"}
    assert selection(m["all"], m, "zz", None) == set()
    assert noqa_rules(None, m) is None and noqa_rules(["PRS", "grp"], m) == {"PRS", "AA01", "AA02"}
    assert noqa_rules(["A*"], m, {"AA02"}) == {"AA02"} and noqa_rules(["AA01"], m, {"AA02"}) == set()
    assert noqa_rules(["PRS"], m, {"AA02"}) == set() and noqa_rules(["PRS"], m, {"PRS"}) == {"PRS"}
    assert except_allowed("grp, PRS", m) == {"AA01", "AA02", "PRS"}
