"""Oracle for template source maps (C07), also used as a precondition by checks that consume the map."""


def slicemap_problems(tf):
    """List of (clause, detail) for one TemplatedFile."""
    probs = []
    src, tmpl = tf.source_str, tf.templated_str
    # raw slices tile the source exactly and in order
    pos = 0
    for rs in tf.raw_sliced:
        if rs.source_idx != pos:
            probs.append(("raw-tiling", f"raw slice {rs.raw[:20]!r} at {rs.source_idx}, expected {pos}"))
            break
        if src[pos:pos + len(rs.raw)] != rs.raw:
            probs.append(("raw-text", f"raw slice text {rs.raw[:30]!r} != source {src[pos:pos + len(rs.raw)][:30]!r} at {pos}"))
            break
        pos += len(rs.raw)
    else:
        if pos != len(src):
            probs.append(("raw-total", f"raw slices cover {pos} of {len(src)} source chars"))
    # rendered slices tile the rendered text exactly and in order
    tpos = 0
    for i, s in enumerate(tf.sliced_file):
        ts, ss = s.templated_slice, s.source_slice
        if ts.start != tpos or ts.stop < ts.start:
            probs.append(("templated-tiling", f"slice {i} {s.slice_type} templated {ts}, expected start {tpos}"))
            break
        tpos = ts.stop
        if not (0 <= ss.start <= ss.stop <= len(src)):
            probs.append(("source-bounds", f"slice {i} {s.slice_type} source {ss} outside [0,{len(src)}]"))
            break
        if s.slice_type == "literal" and ts.stop > ts.start:
            if tmpl[ts] != src[ss]:
                probs.append(("literal-text", f"slice {i} literal renders {tmpl[ts][:30]!r} but source has {src[ss][:30]!r}"))
                break
    else:
        if tpos != len(tmpl):
            probs.append(("templated-total", f"slices cover {tpos} of {len(tmpl)} rendered chars"))
    return probs
