"""Shared machinery for the "fix output" family (C12, C13, C14, C15, C17).

One observation = ``Linter(config).lint_string(sql, fix=True)`` + ``LintedFile.fix_string()`` with the raw templater,
then (lazily) a re-lex of the fixed text with the same config, a re-parse of it, and a second fix pass over it.

A *case* is ``{"dialect", "sql", "rules", "rule_configs"?, "origin"?, "mutated"?}``.  ``rules`` is the value of the
``rules`` core option (a group, a comma list or a single code).  ``rule_configs`` is what ``vlib.sf.mkcfg`` takes
(``{"capitalisation.keywords": {...}, "layout:type:comma": {...}, "indentation": {...}}``) plus the pseudo key
``"core"`` for core overrides such as ``max_line_length``.
"""
from __future__ import annotations

import re

from hypothesis import strategies as st

from vlib import gens
from vlib.sf import FORMAT_RULES, Crash, code_of, guard, mkcfg, structural

RULESETS = {"format": FORMAT_RULES, "layout": "layout", "core": "core", "all": "all"}

# Rules whose fixes edit text (the ones worth selecting on their own).
SINGLE_RULES = ["AL01", "AL02", "AL05", "AL07", "AL09", "AM02", "AM03", "AM05", "AM08", "CP01", "CP02", "CP03", "CP04",
                "CP05", "CV01", "CV02", "CV03", "CV04", "CV05", "CV06", "CV07", "CV10", "CV11", "CV12", "JJ01", "LT01",
                "LT02", "LT03", "LT04", "LT05", "LT06", "LT07", "LT08", "LT09", "LT10", "LT11", "LT12", "LT13", "LT14",
                "LT15", "OR01", "RF03", "RF06", "ST01", "ST02", "ST04", "ST05", "ST06", "ST07", "ST08", "ST09", "ST12",
                "TQ02", "TQ03", "TQ04"]  # every rule with is_fix_compatible (selftest of C12 checks the list)

MAXLEN_QUICK = 800
MAXLEN_THOROUGH = 1500


def normalise_newlines(s):
    """What Linter.render_string does to every source before anything else (CRLF / CR -> LF).  The fix family compares
    against this form; whether that normalisation may be written back is C11's question."""
    return re.sub(r"\r\n|\r", "\n", s)


def ruleset_value(name):
    return RULESETS.get(name, name)


def make_config(case):
    rc = dict(case.get("rule_configs") or {})
    core = dict(rc.pop("core", {}) or {})
    return mkcfg(dialect=case.get("dialect", "ansi"), templater="raw", rule_configs=rc,
                 rules=ruleset_value(case.get("rules", "all")), **core)


def kind_of(seg):
    """Coarse token kind shared by lexer output and parsed leaves."""
    if seg.is_type("whitespace"):
        return "whitespace"
    if seg.is_type("newline"):
        return "newline"
    if seg.is_type("comment"):
        return "comment"
    return "code"


def tokens_of(segments):
    """[(raw, kind, type)] of the non-meta, non-empty raw segments."""
    return [(s.raw, kind_of(s), s.get_type()) for s in segments if not s.is_meta and s.raw != ""]


def relex(sql, config):
    """Lex a plain string with the dialect's lexer: ([(raw, kind, type)], lex_errors) or Crash."""
    from sqlfluff.core.parser import Lexer

    r = guard(Lexer(config=config).lex, sql)
    if isinstance(r, Crash):
        return r
    toks, errs = r
    return tokens_of(toks), list(errs)


class FixRun:
    """First fix pass of one case (+ lazily: relex, reparse, second pass)."""

    def __init__(self, case, sql=None, config=None, require_clean=False):
        from sqlfluff.core import Linter

        self.case = case
        self.sql = normalise_newlines(case["sql"] if sql is None else sql)
        self.excluded = None  # reason when this case is outside the fix properties' domain
        self.lf = None
        self.fixed = None
        self.changed = False
        self.tree = None
        self._relex = None
        self._second = None
        self._reparse = None
        try:
            self.config = config or make_config(case)
            self.linter = Linter(config=self.config)
        except Exception as e:  # config rejected (unknown rule, bad option): outside the domain
            self.excluded = "config-rejected:" + type(e).__name__
            return
        if require_clean:
            # cheap pre-check (parse only) so that the fix is not paid for inputs outside the domain
            p = guard(self.linter.parse_string, self.sql)
            if isinstance(p, Crash):
                self.excluded = "crash(C04):" + p.type
                self.crash = p
                return
            if structural(p.violations) or p.root_variant() is None:
                self.excluded = "input-not-clean"
                return
        lf = guard(self.linter.lint_string, self.sql, fix=True)
        if isinstance(lf, Crash):
            self.excluded = "crash(C04):" + lf.type
            self.crash = lf
            return
        self.lf = lf
        self.violations = list(lf.violations)
        self.pre_structural = structural(self.violations)
        self.unexpected = [v for v in self.violations if "Unexpected exception" in (v.desc() or "")]
        if self.unexpected:
            self.excluded = "rule-internal-error(C05):" + code_of(self.unexpected[0])
            return
        if lf.tree is None:
            self.excluded = "no-tree"
            return
        self.tree = lf.tree
        r = guard(lf.fix_string)
        if isinstance(r, Crash):
            self.excluded = "crash(C04):" + r.type
            self.crash = r
            return
        self.fixed, self.changed = r
        self.changed = bool(self.changed) and self.fixed != self.sql

    # ------------------------------------------------------------------ first pass facts
    @property
    def clean_input(self):
        return self.lf is not None and not self.pre_structural

    def fixing_rules(self):
        """Codes of the rules that reported a fixable violation on the first pass (sorted)."""
        out = set()
        for v in self.violations:
            if getattr(v, "fixes", None):
                out.add(code_of(v))
        return sorted(out)

    def tree_tokens(self):
        return tokens_of(self.tree.raw_segments)

    # ------------------------------------------------------------------ lazily computed
    def relexed(self):
        if self._relex is None:
            self._relex = relex(self.fixed, self.config)
        return self._relex

    def reparse(self):
        """Structural (TMP/LXR/PRS) violations of the fixed text under the same config, or Crash."""
        if self._reparse is None:
            p = guard(self.linter.parse_string, self.fixed)
            if isinstance(p, Crash):
                self._reparse = p
            else:
                self._reparse = (structural(p.violations), p)
        return self._reparse

    def second(self):
        """Second fix pass over the fixed text, same config object."""
        if self._second is None:
            self._second = FixRun(self.case, sql=self.fixed, config=self.config)
        return self._second


# --------------------------------------------------------------------------- token sequence comparison


def coalesce_blanks(tokens):
    """Adjacent whitespace leaves (a fix may leave `' '`, `' '` side by side) spell one whitespace token; they are not
    the 'tokens' the property is about, so both sides are compared with such runs joined."""
    out = []
    for t in tokens:
        if out and t[1] == "whitespace" and out[-1][1] == "whitespace":
            out[-1] = (out[-1][0] + t[0], "whitespace", out[-1][2])
        else:
            out.append(t)
    return out


def seq_diff(tree_toks, relexed):
    """First disagreement between tree leaves and relexed tokens (runs of whitespace leaves joined).

    Returns None, or (kind, tree_leaves_involved, relexed_tokens_involved) where kind is
      merge  - several leaves are lexed as fewer tokens (boundaries lost)
      split  - fewer leaves are lexed as more tokens
      shift  - same text, boundaries moved without a simple merge/split
      retype - same boundaries, another coarse kind (whitespace/newline/comment/code)
      text   - the two sequences do not even spell the same text
    """
    tree_toks, relexed = coalesce_blanks(tree_toks), coalesce_blanks(relexed)
    n = min(len(tree_toks), len(relexed))
    i = 0
    while i < n and tree_toks[i][0] == relexed[i][0]:
        if tree_toks[i][1] != relexed[i][1]:
            return "retype", [tree_toks[i]], [relexed[i]]
        i += 1
    if i == len(tree_toks) and i == len(relexed):
        return None
    # re-synchronise: extend both sides until the accumulated text is equal
    a, b = i, i
    sa, sb = "", ""
    while True:
        if len(sa) <= len(sb) and a < len(tree_toks):
            sa += tree_toks[a][0]
            a += 1
        elif b < len(relexed):
            sb += relexed[b][0]
            b += 1
        elif a < len(tree_toks):
            sa += tree_toks[a][0]
            a += 1
        else:
            break
        if sa == sb and sa:
            break
        if not (sa.startswith(sb) or sb.startswith(sa)):
            return "text", tree_toks[i:a], relexed[i:b]
    if sa != sb:
        return "text", tree_toks[i:a], relexed[i:b]
    ta, tb = tree_toks[i:a], relexed[i:b]
    if len(tb) == 1 and len(ta) > 1:
        kind = "merge"
    elif len(ta) == 1 and len(tb) > 1:
        kind = "split"
    elif len(ta) > len(tb):
        kind = "merge"
    elif len(ta) < len(tb):
        kind = "split"
    else:
        kind = "shift"
    return kind, ta, tb


# --------------------------------------------------------------------------- attribution


def attribute(case, candidates, still_fails, limit=8):
    """Which rule(s) are responsible for a failure: returns a short string for the signature.

    ``still_fails(case2)`` re-runs the oracle on a case with another rule selection.  First every candidate on its own;
    if none reproduces, the candidates whose removal makes the failure disappear.  Only used on failing cases.
    """
    cands = list(candidates)[:limit]
    if len(cands) <= 1:
        return "+".join(cands) or "none"
    alone = []
    for r in cands:
        c = dict(case)
        c["rules"] = r
        try:
            if still_fails(c):
                alone.append(r)
        except Exception:
            pass
    if alone:
        return alone[0]
    needed = []
    for r in cands:
        c = dict(case)
        c["rules"] = ",".join(x for x in cands if x != r)
        try:
            if not still_fails(c):
                needed.append(r)
        except Exception:
            pass
    return "+".join(needed) if needed else "combo:" + "+".join(cands)


# --------------------------------------------------------------------------- domain


def size_limit(tier):
    return MAXLEN_QUICK if tier == "quick" else MAXLEN_THOROUGH


def pinned_slice(tier, rulesets, per_dialect_quick=2, per_dialect_thorough=12, offset=0, extra=None):
    """Deterministic backbone: every k-th fixture of every dialect, rule sets assigned round-robin (quick) or crossed
    (thorough)."""
    n = per_dialect_quick if tier == "quick" else per_dialect_thorough
    i = 0
    for c in gens.corpus_slice(n, maxsize=size_limit(tier), offset=offset):
        sets = [rulesets[i % len(rulesets)]] if tier == "quick" else rulesets
        i += 1
        for rs in sets:
            case = {"dialect": c["dialect"], "sql": c["sql"], "origin": c["origin"], "rules": rs, "mutated": 0}
            if extra:
                case.update(extra)
            yield case


def rules_strategy(named=("format", "layout", "core", "all"), singles=True, single_share=0.25):
    """Flat sampled_from (Hypothesis draws it close to uniformly): named sets, and single rules for about
    ``single_share`` of the cases."""
    named = list(named)
    if not singles:
        return st.sampled_from(named)
    k = max(1, round(len(SINGLE_RULES) * (1 - single_share) / single_share / len(named)))
    return st.sampled_from(named * k + SINGLE_RULES)


_SPLIT = re.compile(r"('(?:[^']|'')*'|--[^\n]*\n|/\*.*?\*/)", re.S)


def structure_noise(sql, rng):
    """Generic shapes the corpus and G-sql rarely have: a comment squeezed directly between a name and its opening
    bracket, a statement wrapped in brackets (with a comment before the closing bracket), several statements."""
    k = rng.random()
    if k < 0.4:
        # comment (and line break) directly before an opening bracket that follows a word: f -- c\n(x)
        pos = [m.start() for m in re.finditer(r"(?<=\w)[(\[]", sql)]
        if pos:
            i = rng.choice(pos)
            sql = sql[:i] + rng.choice([" -- b1\n", " /* b2 */", "-- b3\n  "]) + sql[i:]
    elif k < 0.75:
        body = sql.rstrip().rstrip(";").rstrip()
        tail = rng.choice(["", " -- e1\n", "\n    -- e2\n", " /* e3 */ "])
        head = rng.choice(["(", "(\n    ", "( "])
        sql = head + body + tail + ")" + rng.choice([";\n", "\n;\n", ";\nSELECT 2;\n", "\n"])
    else:
        sql = sql.rstrip() + rng.choice(["\n;\nSELECT 1;\n", ";\n-- s1\nSELECT 1\n", " ;  -- s2\n"])
    return sql


def structure_family():
    """Systematic statement-level shapes (seed-independent): a few base queries x {plain, wrapped in brackets with and
    without line breaks / comments next to the brackets, several statements, comment before the terminator} x rule sets."""
    bases = ["SELECT 1", "SELECT a, b FROM t WHERE a = 1", "select a from t1 union select a from t2",
             "INSERT INTO t (a) VALUES (1)"]
    shapes = ["{q};\n", "({q});\n", "(\n    {q}\n);\n", "(\n    {q} -- c\n);\nSELECT 2;\n", "( {q} /* c */ )\n;\n",
              "(\n    -- lead\n    {q}\n    -- trail\n);\n", "{q} -- c\n;\nSELECT 2;\n", "{q};;\n{q}\n", "(({q}));\n",
              "{q}\n;\n\n\n"]
    for q in bases:
        for sh in shapes:
            # single rules as well: under a rule group a second rule of the same pass can repair (and so hide)
            # what the first one broke
            for rules in ("all", "core", "convention", "CV07", "CV06", "LT01,LT02"):
                yield {"dialect": "ansi", "sql": sh.replace("{q}", q), "rules": rules, "origin": "structure-family"}


def sprinkle_comments(sql, rng, p=0.12):
    """Layout noise the G-sql generator does not produce: comments in the middle of clauses (after commas, operators,
    keywords).  Inserted only at existing blanks outside string literals and comments, so the query stays valid."""
    parts = _SPLIT.split(sql)
    out = []
    for i, part in enumerate(parts):
        if i % 2:  # literal or comment
            out.append(part)
            continue
        pieces = re.split(r"( +)", part)
        for j, piece in enumerate(pieces):
            out.append(piece)
            if j % 2 and rng.random() < p:
                out.append(rng.choice(["-- k1\n", "/* k2 */ ", "-- k3\n    ", "/* k4 */"]))
    return "".join(out)


@st.composite
def fix_case(draw, tier="quick", rules=None, mutate=None, gsql_weight=2, fixture_weight=2, mutated_weight=2,
             gsql_features=None, kinds=None, comments_inside=False, structure=False):
    """Corpus fixture (optionally mutated) in any dialect, or a generated valid sqlite query with layout noise."""
    maxsize = size_limit(tier)
    if mutate is False:
        mutated_weight = 0
    which = draw(st.sampled_from(["gsql"] * gsql_weight + ["fixture"] * fixture_weight + ["mutated"] * mutated_weight))
    if which == "gsql":
        d = draw(st.sampled_from(["sqlite", "sqlite", "ansi", "postgres", "duckdb"]))
        feats = dict(gsql_features or {})
        feats.setdefault("multi_cte", True)
        c = draw(gens.gsql_case(dialect=d, uniform=True, **feats))
        if comments_inside and draw(st.booleans()):
            c["sql"] = sprinkle_comments(c["sql"], gens.seeded_rng(draw))
    else:
        c = draw(gens.corpus_case(maxsize=maxsize, mutate=(which == "mutated"), max_ops=2, kinds=kinds))
    if structure and draw(st.integers(0, 3)) == 0:
        rng = gens.seeded_rng(draw)
        if rng.random() < 0.5:
            c["sql"] = sprinkle_comments(c["sql"], rng)
        c["sql"] = structure_noise(c["sql"], rng)
        c["structure_noise"] = True
    c["rules"] = draw(rules if rules is not None else rules_strategy())
    return c


def base_labels(case):
    r = str(case.get("rules"))
    if r in RULESETS:
        rl = r
    elif re.fullmatch(r"[A-Z]{2}\d\d", r):
        rl = "single"
    elif "," in r:
        rl = "list"
    else:
        rl = "group:" + r
    origin = "gsql" if case.get("origin") == "gsql" else "fixture-mutated" if case.get("mutated") else "fixture"
    return ["dialect:" + case.get("dialect", "ansi"), "rules:" + rl, "origin:" + origin]


# --------------------------------------------------------------------------- where did it happen

_CONSTRUCTS = ("case_expression", "function", "common_table_expression", "set_expression", "values_clause",
               "array_literal", "object_literal", "table_expression", "window_specification", "over_clause",
               "data_type", "column_definition", "bracketed")


def first_diff(a, b):
    n = min(len(a), len(b))
    for i in range(n):
        if a[i] != b[i]:
            return i
    return n


def construct_at(tree, offset):
    """Coarse name of the construct that holds the character at ``offset`` of ``tree.raw``: the nearest ancestor that is
    a clause / statement / one of a few expression constructs.  Used in signatures (never the input itself)."""
    pos = 0
    leaf = None
    for s in tree.raw_segments:
        ln = len(s.raw)
        if ln and pos <= offset < pos + ln:
            leaf = s
            break
        pos += ln
    if leaf is None:
        return "end-of-file"
    try:
        path = tree.path_to(leaf)
    except Exception:
        return "?"
    for step in reversed(path):
        t = step.segment.get_type()
        if t.endswith("_clause") or t.endswith("_statement") or t in _CONSTRUCTS:
            return t
    return path[-1].segment.get_type() if path else "file"


def first_unparsable(tree):
    """(parent type, type of its first code leaf) of the first unparsable node, or None."""
    for u in tree.recursive_crawl("unparsable"):
        try:
            path = tree.path_to(u)
            parent = path[-1].segment.get_type() if path else "file"
        except Exception:
            parent = "?"
        first = next((s.get_type() for s in u.raw_segments if s.is_code), "-")
        return parent, first
    return None
