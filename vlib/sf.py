"""Thin helpers around sqlfluff's public objects (imported lazily so the harness can load without it)."""
from __future__ import annotations

import os
import traceback

FORMAT_RULES = ("capitalisation,layout,ambiguous.union,convention.not_equal,convention.coalesce,"
                "convention.select_trailing_comma,convention.is_null,jinja.padding,structure.distinct")


def mkcfg(dialect="ansi", templater="raw", context=None, param_style=None, dotted=None, rule_configs=None,
          **overrides):
    """Build a FluffConfig without reading any file."""
    from sqlfluff.core import FluffConfig

    core = {"dialect": dialect, "templater": templater}
    core.update(overrides)
    configs = {"core": core}
    if templater == "jinja":
        configs["templater"] = {"jinja": {"context": dict(context or {})}}
    elif templater == "python":
        ctx = dict(context or {})
        if dotted:
            ctx["sqlfluff"] = dict(dotted)
        configs["templater"] = {"python": {"context": ctx}}
    elif templater == "placeholder":
        ctx = dict(context or {})
        if param_style:
            ctx["param_style"] = param_style
        configs["templater"] = {"placeholder": ctx}
    if rule_configs:
        for k, v in rule_configs.items():
            if k in ("indentation",):
                configs[k] = dict(v)
            elif k.startswith("layout:"):
                # e.g. "layout:type:comma" -> {"layout": {"type": {"comma": {...}}}}
                _, a, b = k.split(":")
                configs.setdefault("layout", {}).setdefault(a, {})[b] = dict(v)
            else:
                configs.setdefault("rules", {})[k] = dict(v) if isinstance(v, dict) else v
    return FluffConfig(configs=configs, ignore_local_config=True)


def innermost_frame(exc: BaseException):
    """(module-relative path:function) of the innermost frame inside the sqlfluff package."""
    tb = traceback.extract_tb(exc.__traceback__)
    frame = None
    for fr in tb:
        fn = fr.filename.replace(os.sep, "/")
        if "/sqlfluff/" in fn:
            frame = fn.split("/sqlfluff/", 1)[1] + ":" + fr.name
    if frame is None and tb:
        fr = tb[-1]
        frame = os.path.basename(fr.filename) + ":" + fr.name
    return frame


class Crash:
    def __init__(self, exc):
        self.exc = exc
        self.type = type(exc).__name__
        self.frame = innermost_frame(exc)
        self.msg = str(exc)[:300]

    def __repr__(self):
        return f"Crash({self.type} at {self.frame}: {self.msg[:100]})"


def guard(fn, *a, **k):
    """Run a sqlfluff call; exceptions become Crash objects (only C04 judges them)."""
    try:
        return fn(*a, **k)
    except RecursionError as e:  # keep the traceback small
        return Crash(e)
    except Exception as e:
        return Crash(e)


def is_skip(crash) -> bool:
    return isinstance(crash, Crash) and crash.type in ("SQLFluffSkipFile",)


def nonmeta(segments):
    return [s for s in segments if not s.is_meta]


def code_of(v):
    try:
        return v.rule_code()
    except Exception:
        return "???"


def structural(violations):
    return [v for v in violations if code_of(v) in ("TMP", "LXR", "PRS")]


def vio_tuple(v):
    return (code_of(v), v.line_no, v.line_pos, v.desc())
