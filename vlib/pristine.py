"""Run a job in a process that has imported everything but has never executed a job before.

A "zygote" is forked from the current process the first time it is needed (before the caller has run anything
stateful, if the caller takes care of that); every request makes the zygote fork a grandchild which runs the job,
writes the JSON result and exits.  The zygote itself never runs a job, so every job sees the same pristine module
state (class attributes, caches) no matter how many cases the calling worker has processed.  Cost: two forks per
job instead of an interpreter start and a re-import.

``warm`` (optional) runs once inside the zygote: use it to pay one-off import / grammar compilation costs.

The job function must be a module-level callable taking and returning JSON-serialisable values.
"""
from __future__ import annotations

import atexit
import json
import os
import select
import signal
import traceback

_Z = {}


def _single_threaded_tqdm():
    """sqlfluff creates tqdm bars (disabled ones too) while parsing and linting; tqdm then starts a monitor thread
    whose lock, if held at the moment of a fork, deadlocks the child.  Inside the zygote family there is no monitor."""
    try:
        import tqdm

        tqdm.tqdm.monitor_interval = 0
        tqdm.tqdm.monitor = None
        if hasattr(tqdm.tqdm, "_lock"):
            del tqdm.tqdm._lock
    except Exception:
        pass


class _Zygote:
    def __init__(self, job, warm=None):
        self.owner = os.getpid()
        self.dead = False
        r1, w1 = os.pipe()
        r2, w2 = os.pipe()
        pid = os.fork()
        if pid == 0:
            try:
                os.close(w1)
                os.close(r2)
                os.setpgrp()  # so that the owner can kill the zygote together with a stuck job
                _single_threaded_tqdm()
                if warm is not None:
                    try:
                        warm()  # imports / compiled grammars only: must not execute what the jobs examine
                    except BaseException:  # noqa
                        pass
                self._serve(job, r1, w2)
            finally:
                os._exit(0)
        os.close(r1)
        os.close(w2)
        self.pid = pid
        self.w = os.fdopen(w1, "w")
        self.r = os.fdopen(r2, "r")

    @staticmethod
    def _serve(job, r, w):
        rf = os.fdopen(r, "r")
        wf = os.fdopen(w, "w")
        for line in rf:  # EOF when the owner goes away
            pr, pw = os.pipe()
            cpid = os.fork()
            if cpid == 0:
                try:
                    os.close(pr)
                    try:
                        res = {"ok": job(json.loads(line))}
                    except BaseException as e:  # noqa
                        res = {"error": type(e).__name__, "trace": traceback.format_exc()[-1500:]}
                    with os.fdopen(pw, "w") as f:
                        f.write(json.dumps(res))
                finally:
                    os._exit(0)
            os.close(pw)
            with os.fdopen(pr, "r") as f:
                data = f.read()
            os.waitpid(cpid, 0)
            wf.write((data or json.dumps({"error": "no-output", "trace": ""})) + "\n")
            wf.flush()

    def call(self, req, timeout=180.0):
        self.w.write(json.dumps(req) + "\n")
        self.w.flush()
        ready, _, _ = select.select([self.r], [], [], timeout)
        if not ready:
            self.kill()
            return {"error": "pristine-timeout", "trace": ""}
        line = self.r.readline()
        if not line:
            self.kill()
            return {"error": "pristine-zygote-died", "trace": ""}
        return json.loads(line)

    def kill(self):
        self.dead = True
        try:
            os.killpg(self.pid, signal.SIGKILL)
        except Exception:
            pass
        try:
            os.waitpid(self.pid, 0)
        except Exception:
            pass

    def close(self):
        if os.getpid() != self.owner or self.dead:
            return
        try:
            self.w.close()
            self.r.close()
            os.waitpid(self.pid, 0)
        except Exception:
            pass


def ensure(job, key=None, warm=None) -> bool:
    """Fork the zygote for this process now (call it before the process does anything stateful).
    Returns True when a new zygote was created."""
    k = key or getattr(job, "__qualname__", repr(job))
    z = _Z.get(k)
    if z is None or z.owner != os.getpid() or z.dead:
        _Z[k] = _Zygote(job, warm)
        return True
    return False


def run(job, req, key=None):
    """-> {"ok": result} or {"error": type name, "trace": ...}.  One zygote per (process, key)."""
    k = key or getattr(job, "__qualname__", repr(job))
    ensure(job, k)
    return _Z[k].call(req)


@atexit.register
def _cleanup():
    for z in list(_Z.values()):
        z.close()
