"""Files-on-disk helpers shared by C11 and C26: SQL text whose fix is known by construction, raw-byte
placeholders, encoders.

Text model
----------
A file is a list of lines.  Code lines are built from *chunks* separated by exactly one blank in the
fixed form; the original ("dirty") form widens some of those blanks to 2-4 blanks.  Rule LT01 (layout.spacing)
repairs exactly that, so the expected fixed text is known without asking sqlfluff.  String literals, trailing
`-- comments` and `/* block comments */` carry a *payload* drawn from a character pool (non-ASCII letters,
symbols, astral characters, double blanks) and - for C11 - raw-byte placeholders.

Raw bytes
---------
A code point U+E000+b (private use, b in 0..255) in a text stands for the single raw byte b; `encode_raw`
encodes everything else with the codec and emits placeholder bytes verbatim.  This keeps cases
JSON-serialisable and lets the minimiser work on the `sql` string.
"""
from __future__ import annotations

import codecs

from hypothesis import strategies as st

# statement shapes: chunks are joined by one blank in the fixed form; "{L}" is replaced by a string literal
STMTS = [
    ["SELECT", "a,", "b", "FROM", "t1", "WHERE", "c", "=", "1"],
    ["SELECT", "{L}", "AS", "x", "FROM", "t2"],
    ["UPDATE", "t1", "SET", "a", "=", "{L}", "WHERE", "b", ">", "2"],
    ["INSERT", "INTO", "t3", "(k,", "v)", "VALUES", "(1,", "{L})"],
    ["DELETE", "FROM", "t2", "WHERE", "a", "IN", "(1,", "2,", "3)"],
    ["SELECT", "k,", "{L}", "AS", "v", "FROM", "t3", "ORDER", "BY", "k"],
]

POOLS = {
    "ascii": "xyz_%#",
    "latin": "éüñÿß©µ",          # all < U+0100: encodable in latin-1 and cp1252
    "cp1252": "éü€“™š",                    # euro, curly quote, TM, s-caron: cp1252 only
    "uni": "éß€ł漢字\U0001F600Ж",      # needs a UTF encoding
}

RAW_BASE = 0xE000


def no_tqdm_monitor():
    """tqdm starts a monitor thread in tqdm.__new__ (even for disabled bars) the first time sqlfluff lints in
    this process.  The replay tier runs in the parent, which then forks the shard workers; forking a process
    with a live thread that periodically takes tqdm's lock can leave that lock held for ever in the children
    (observed under heavy load: all 16 workers asleep in futex_wait for an hour).  No monitor thread, no problem."""
    try:
        import tqdm

        tqdm.tqdm.monitor_interval = 0
    except Exception:  # noqa
        pass


def raw(b: int) -> str:
    return chr(RAW_BASE + b)


def is_raw(ch: str) -> bool:
    return RAW_BASE <= ord(ch) <= RAW_BASE + 0xFF


def has_raw(text: str) -> bool:
    return any(is_raw(c) for c in text)


BOMS = {
    "utf-8-sig": codecs.BOM_UTF8,
    "utf-16": codecs.BOM_UTF16_LE,
    "utf-16-le-bom": codecs.BOM_UTF16_LE,
    "utf-16-be-bom": codecs.BOM_UTF16_BE,
}
_BASE = {"utf-8-sig": "utf-8", "utf-16": "utf-16-le", "utf-16-le-bom": "utf-16-le", "utf-16-be-bom": "utf-16-be"}


def encode_raw(text: str, enc: str) -> bytes:
    """Encode `text` in `enc` (BOM for utf-8-sig / utf-16), raw-byte placeholders emitted verbatim."""
    base = _BASE.get(enc, enc)
    out = [BOMS.get(enc, b"")]
    run = []
    for ch in text:
        if is_raw(ch):
            if run:
                out.append("".join(run).encode(base))
                run = []
            out.append(bytes([ord(ch) - RAW_BASE]))
        else:
            run.append(ch)
    if run:
        out.append("".join(run).encode(base))
    return b"".join(out)


def fixed_byte_forms(text: str, enc: str):
    """Acceptable byte forms of a fixed text in the file's encoding (utf-16: either byte order, with BOM)."""
    forms = {encode_raw(text, enc)}
    if enc.startswith("utf-16"):
        forms.add(encode_raw(text, "utf-16-le-bom"))
        forms.add(encode_raw(text, "utf-16-be-bom"))
    return forms


def payloads(pool: str, raw_bytes=(), max_size=8):
    alphabet = list(pool + "ab ") + [raw(b) for b in raw_bytes]
    return st.text(alphabet=st.sampled_from(alphabet), max_size=max_size).map(
        lambda s: " ".join(s.split(" ")).strip()  # no leading/trailing blank (keeps LT01 out of the payload)
    )


@st.composite
def sql_text(draw, pool="ascii", raw_bytes=(), dirty=True, max_stmts=3, raw_in=("comment", "literal")):
    """-> {"sql": dirty text (LF), "fixed": expected text after LT01, "gaps": number of widened blanks}."""
    n = draw(st.integers(1, max_stmts))
    pay_c = payloads(pool, raw_bytes if "comment" in raw_in else ())
    pay_l = payloads(pool, raw_bytes if "literal" in raw_in else ())
    dirty_lines, fixed_lines = [], []
    widened = 0
    for i in range(n):
        if draw(st.integers(0, 3)) == 0:
            c = "/* " + draw(pay_c).replace("*/", "* /") + "  x */"
            dirty_lines.append(c)
            fixed_lines.append(c)
        chunks = list(STMTS[draw(st.integers(0, len(STMTS) - 1))])
        lit = "'" + draw(pay_l) + "'"
        chunks = [c.replace("{L}", lit) for c in chunks]
        widths = draw(st.lists(st.sampled_from([1, 1, 1, 2, 3, 4]), min_size=len(chunks) - 1, max_size=len(chunks) - 1))
        if not dirty:
            widths = [1] * len(widths)
        elif i == n - 1 and widened == 0 and all(w == 1 for w in widths):
            widths[draw(st.integers(0, len(widths) - 1))] = 2
        widened += sum(1 for w in widths if w > 1)
        d = chunks[0] + "".join(" " * w + c for w, c in zip(widths, chunks[1:]))
        f = " ".join(chunks)
        tail = ";"
        if draw(st.booleans()):
            tail += " -- " + draw(pay_c) + "."
        dirty_lines.append(d + tail)
        fixed_lines.append(f + tail)
    return {"sql": "\n".join(dirty_lines) + "\n", "fixed": "\n".join(fixed_lines) + "\n", "gaps": widened}
