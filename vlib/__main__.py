import sys
from vlib.framework import main
sys.exit(main())
