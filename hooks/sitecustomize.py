"""Harness-side schedule injector for C24 (and observer for C34).

Python imports a module called ``sitecustomize`` at interpreter start-up when one is importable.  The checks put
``/verif/hooks`` on PYTHONPATH of the *CLI subprocess only*; the ``spawn``ed pool workers of sqlfluff's
MultiProcessRunner inherit that environment, so the same code runs in every worker.  Nothing in /repo is touched
and nothing happens unless one of the environment variables below is set:

VERIF_DELAYS    JSON object {basename: seconds}.  ``Linter.render_file`` (the first thing a worker - or the serial
                runner - does for a file) sleeps that long before doing its work.  With ``imap_unordered`` and
                chunksize 1 the completion order of the files is therefore decided by the delay vector.
VERIF_SCHEDLOG  path of a log file.  One line per event, appended with a single O_APPEND write:
                    render <pid> <fname>     a process starts working on a file (after the injected delay)
                    add <pid> <path>         the main process receives a finished file (LintedDir.add), i.e. the
                                             observed completion order
                    parse <pid> <fname>      Linter.parse_rendered is entered for a file with at least one rendered
                                             variant, i.e. the file is about to be lexed and parsed (C34: must never
                                             be seen for a skipped file); "parse0" when there is nothing to parse
                    persist <pid> <path>     LintedFile._safe_create_replace_file is about to (re)write a file

The wrappers call the original functions with unchanged arguments and return their results unchanged.
"""
import os
import sys

if os.environ.get("VERIF_DELAYS") or os.environ.get("VERIF_SCHEDLOG"):
    import importlib.abc
    import importlib.machinery
    import json

    try:
        _DELAYS = json.loads(os.environ.get("VERIF_DELAYS") or "{}")
    except ValueError:
        _DELAYS = {}
    _LOG = os.environ.get("VERIF_SCHEDLOG")

    def _log(event, what):
        if not _LOG:
            return
        try:
            fd = os.open(_LOG, os.O_WRONLY | os.O_APPEND | os.O_CREAT, 0o644)
            try:
                os.write(fd, ("%s %d %s\n" % (event, os.getpid(), what)).encode("utf-8", "backslashreplace"))
            finally:
                os.close(fd)
        except OSError:
            pass

    def _patch_linter(mod):
        import time

        Linter = mod.Linter
        orig_render = Linter.render_file

        def render_file(self, fname, root_config):
            d = _DELAYS.get(os.path.basename(fname), 0)
            if d:
                time.sleep(float(d))
            _log("render", fname)
            return orig_render(self, fname, root_config)

        render_file.__wrapped__ = orig_render
        Linter.render_file = render_file

        orig_parse = Linter.__dict__["parse_rendered"]  # classmethod object
        orig_parse_fn = orig_parse.__func__

        def parse_rendered(cls, rendered, *a, **k):
            # "parse": at least one rendered variant is about to be lexed and parsed; "parse0": nothing to parse
            _log("parse" if getattr(rendered, "templated_variants", None) else "parse0", getattr(rendered, "fname", "?"))
            return orig_parse_fn(cls, rendered, *a, **k)

        Linter.parse_rendered = classmethod(parse_rendered)

    def _patch_linted_dir(mod):
        LintedDir = mod.LintedDir
        orig_add = LintedDir.add

        def add(self, file):
            _log("add", getattr(file, "path", "?"))
            return orig_add(self, file)

        LintedDir.add = add

    def _patch_linted_file(mod):
        LintedFile = mod.LintedFile
        orig = LintedFile.__dict__["_safe_create_replace_file"].__func__  # staticmethod: the one place that writes

        def _safe_create_replace_file(input_path, output_path, *a, **k):
            _log("persist", output_path)
            return orig(input_path, output_path, *a, **k)

        LintedFile._safe_create_replace_file = staticmethod(_safe_create_replace_file)

    _PATCHES = {
        "sqlfluff.core.linter.linter": _patch_linter,
        "sqlfluff.core.linter.linted_dir": _patch_linted_dir,
        "sqlfluff.core.linter.linted_file": _patch_linted_file,
    }

    class _Finder(importlib.abc.MetaPathFinder):
        def find_spec(self, name, path, target=None):
            patch = _PATCHES.get(name)
            if patch is None:
                return None
            spec = importlib.machinery.PathFinder.find_spec(name, path)
            if spec is None or spec.loader is None:
                return None
            del _PATCHES[name]
            orig_exec = spec.loader.exec_module

            def exec_module(module, _orig=orig_exec, _patch=patch):
                _orig(module)
                try:
                    _patch(module)
                except Exception as e:  # never break the program under test silently: say so in the log
                    _log("hook-error", "%s %r" % (name, e))

            spec.loader.exec_module = exec_module
            return spec

    sys.meta_path.insert(0, _Finder())
