"""C24 Parallel and serial runs agree (with injected worker schedules)."""
import collections
import json
import os

from hypothesis import strategies as st

from vlib import projlib as P
from vlib.framework import Check, Outcome

# ---------------------------------------------------------------------------------------------- content
# Statements per kind; a file is 1-3 statements of its kind joined with ";\n".  All files stay far below the
# project's byte limit (400) except the "oversized" one.
PIECES = {
    "clean": ["SELECT a FROM t1", "SELECT a, b FROM t1 WHERE a > 1", "SELECT\n    a,\n    b\nFROM t2"],
    "fixable": ["SELECT  a FROM t1", "select a from t1", "SELECT a,b from t1", "SELECT a FROM t1 WHERE a IN (1,2)",
                "SELECT a FROM t1 where a > 1 and b < 2"],
    "unfixable": ["SELECT DISTINCT a FROM t1 GROUP BY a", "SELECT x.a FROM t1 AS x, t2 AS x"],
    "unparsable": ["SELECT a FROM t1 WHERE", "SELECT (a FROM t1", "FOO BAR BAZ", "SELECT 1 +"],
    "jinja": ["SELECT {{ col }} FROM {{ tbl }}", "SELECT a FROM t1\n{% if flag %}WHERE a = 1{% endif %}",
              "{% for c in ['a', 'b'] %}SELECT {{ c }}  from t1;\n{% endfor %}SELECT 1",
              "select {{ col }}  from {{ tbl }}", "SELECT {{ undefined_thing }} FROM t1",
              "{% set x = 'b' %}SELECT {{ x }},{{ col }} FROM t1"],
    "inline": ["-- sqlfluff:max_line_length:30\nSELECT aaaaaaaaaa, bbbbbbbbbbbb, cccccccccc FROM t1",
               "-- sqlfluff:exclude_rules:LT01\nSELECT  a from t1",
               "-- sqlfluff:rules:capitalisation.keywords:capitalisation_policy:lower\nSELECT a FROM t1"],
}
KINDS = ["clean", "fixable", "fixable", "unfixable", "unparsable", "jinja", "jinja", "inline"]
BYTE_LIMIT = 400

SUB_CONFIGS = {  # name -> {section: {key: value}} of the nested sub/.sqlfluff
    "ctx": {"sqlfluff:templater:jinja:context": {"col": "b", "flag": "False"}},
    "caps": {"sqlfluff:rules:capitalisation.keywords": {"capitalisation_policy": "lower"}},
    "maxlen": {"sqlfluff": {"max_line_length": "20"}},
    "excl": {"sqlfluff": {"exclude_rules": "LT01,LT09"}},
    "tiny-limit": {"sqlfluff": {"large_file_skip_byte_limit": "30"}},
    "rules": {"sqlfluff": {"rules": "LT01,CP01,LT12"}},
}


def sub_config_text(names):
    merged = {}
    for n in names:
        for sect, vals in SUB_CONFIGS[n].items():
            merged.setdefault(sect, {}).update(vals)
    lines = []
    for sect in sorted(merged):
        lines.append("[%s]" % sect)
        lines += ["%s = %s" % kv for kv in sorted(merged[sect].items())]
        lines.append("")
    return "\n".join(lines)


CLI_EXTRA = [[], [], ["--exclude-rules", "LT12"], ["--exclude-rules", "CP01,LT02"], ["--rules", "core"],
             ["--rules", "LT01,LT02,CP01,LT12,AM01,LT05"]]
DIRS = ["", "", "sub", "sub", "sub/deep", "other"]


def make_file(kind, idxs, tag, final_newline=True):
    parts = [PIECES[kind][i % len(PIECES[kind])] for i in idxs]
    if kind == "inline":  # the directive must be the first line of the file
        parts = parts[:1]
    text = ";\n".join(parts)
    text += "\n-- file %s" % tag
    return text + ("\n" if final_newline else "")


def oversized_text(n_pad):
    return "SELECT a  from t1 WHERE (((;\n" + "-- padding padding padding padding padding\n" * n_pad


def root_config(case):
    lines = ["[sqlfluff]", "templater = jinja", "large_file_skip_byte_limit = %d" % BYTE_LIMIT]
    if not case["cli_dialect"]:
        lines.append("dialect = ansi")
    if case.get("skip_fail"):
        lines.append("large_file_skip_fail = True")
    if case.get("warnings"):
        lines.append("warnings = " + case["warnings"])
    lines += ["", "[sqlfluff:templater:jinja:context]", "col = a", "tbl = t1", "flag = True"]
    return "\n".join(lines) + "\n"


def project_files(case):
    files = {".sqlfluff": root_config(case)}
    if case.get("sub_cfg"):
        files["sub/.sqlfluff"] = sub_config_text(case["sub_cfg"])
    for f in case["files"]:
        files[f["path"]] = f["sql"]
    return files


def expand(paths, sql_files):
    """Submission order according to the documented behaviour: each given path in turn, a directory standing for
    the sorted files below it (the projects have no ignore files and only .sql files)."""
    out = []
    for p in paths:
        norm = os.path.normpath(p)
        if norm in sql_files:
            out.append(norm)
            continue
        below = [f for f in sql_files if norm == "." or f.startswith(norm + "/")]
        out.extend(sorted(below))
    return out


@st.composite
def cases(draw, tier):
    n = draw(st.integers(3, 12 if tier == "thorough" else 9))
    files = []
    for i in range(n):
        kind = draw(st.sampled_from(KINDS))
        d = draw(st.sampled_from(DIRS))
        idxs = draw(st.lists(st.integers(0, 5), min_size=1, max_size=3))
        name = "f%d.sql" % i
        path = (d + "/" if d else "") + name
        files.append({"path": path, "kind": kind,
                      "sql": make_file(kind, idxs, name, final_newline=draw(st.integers(0, 5)) != 0)})
    # one oversized file (a fixable violation and a parse error inside: it must be neither reported nor rewritten)
    d = draw(st.sampled_from(DIRS))
    files.append({"path": (d + "/" if d else "") + "big.sql", "kind": "oversized",
                  "sql": oversized_text(draw(st.integers(9, 12)))})
    cmd = draw(st.sampled_from(["lint", "lint", "fix"]))
    sub_cfg = draw(st.lists(st.sampled_from(sorted(SUB_CONFIGS)), max_size=2, unique=True))
    sql_paths = [f["path"] for f in files]
    # path list: disjoint top-level entries in a drawn order ...
    top = sorted({p.split("/")[0] if "/" in p else p for p in sql_paths})
    style = draw(st.sampled_from(["dot", "top", "top", "top-spelled"]))
    if style == "dot":
        paths = ["."]
    else:
        paths = list(draw(st.permutations(top)))
        if style == "top-spelled":
            paths = [draw(st.sampled_from(["./", ""])) + p + ("/" if "." not in p and draw(st.booleans()) else "")
                     for p in paths]
    # ... plus, for lint only, duplicated / overlapping entries (a file fixed twice in one run would race with
    # itself: not part of the statement)
    if cmd == "lint":
        cands = sorted(set(sql_paths) | {"."} | ({os.path.dirname(p) for p in sql_paths} - {""}))
        extra = draw(st.lists(st.sampled_from(cands), max_size=3))
        for e in extra:
            paths.insert(draw(st.integers(0, len(paths))), e)
    delays = {os.path.basename(p): draw(st.sampled_from([0, 0, 0.05, 0.1, 0.15, 0.2, 0.3])) for p in sql_paths}
    return {
        "files": files,
        "sub_cfg": sub_cfg,
        "cmd": cmd,
        "processes": draw(st.sampled_from([2, 2, 4, 4, 8])),
        "paths": paths,
        "delays": delays,
        "cli_dialect": draw(st.sampled_from([True, True, False])),
        "cli_extra": draw(st.sampled_from(CLI_EXTRA)),
        "skip_fail": draw(st.booleans()),
        # rules (and PRS) downgraded to warnings: the flag travels with every violation from the worker to the parent
        "warnings": draw(st.sampled_from([None, None, "LT01", "CP01,LT01,LT02", "PRS", "LT01,LT12,PRS"])),
    }


def _hand(cmd, processes, paths, delays, sub_cfg, **kw):
    files = [
        {"path": "f0.sql", "kind": "clean", "sql": make_file("clean", [0], "f0.sql")},
        {"path": "f1.sql", "kind": "fixable", "sql": make_file("fixable", [2, 1], "f1.sql")},
        {"path": "sub/f2.sql", "kind": "jinja", "sql": make_file("jinja", [0, 1], "f2.sql")},
        {"path": "sub/f3.sql", "kind": "unparsable", "sql": make_file("unparsable", [1], "f3.sql")},
        {"path": "sub/deep/f4.sql", "kind": "jinja", "sql": make_file("jinja", [3, 2], "f4.sql")},
        {"path": "other/f5.sql", "kind": "fixable", "sql": make_file("fixable", [0, 3], "f5.sql", False)},
        {"path": "other/f6.sql", "kind": "inline", "sql": make_file("inline", [0], "f6.sql")},
        {"path": "f7.sql", "kind": "unfixable", "sql": make_file("unfixable", [0], "f7.sql")},
        {"path": "other/big.sql", "kind": "oversized", "sql": oversized_text(10)},
    ]
    case = {"files": files, "sub_cfg": sub_cfg, "cmd": cmd, "processes": processes, "paths": paths,
            "delays": delays, "cli_dialect": True, "cli_extra": [], "skip_fail": False,
            "warnings": kw.get("warnings")}
    case.update(kw)
    return case


REVERSING = {"f0.sql": 0.3, "f1.sql": 0.25, "f7.sql": 0.2, "f5.sql": 0.15, "f6.sql": 0.1, "f2.sql": 0.05,
             "f3.sql": 0.0, "f4.sql": 0.0, "big.sql": 0.1}


class C24(Check):
    id = "C24"
    level = "exploration"
    shrink_fields = ()
    rule = (
        "Generated projects of 4-13 files (kinds clean / fixable / unfixable / unparsable / jinja-templated with "
        "context from config / in-file directives, plus one file over large_file_skip_byte_limit) in root, sub/, "
        "sub/deep/, other/; root .sqlfluff (jinja templater, context, byte limit, large_file_skip_fail drawn), a "
        "nested sub/.sqlfluff drawn from {other jinja context, rule option, max_line_length, exclude_rules, rules, "
        "tiny byte limit}; dialect and rule selection partly as command-line overrides. Each case = one reference run "
        "`sqlfluff lint --format json --processes 1` / `fix --processes 1` over the sorted path list and one run with "
        "--processes N in {2,4,8}, a Hypothesis-drawn permutation of the path list (lint: also duplicated and "
        "overlapping entries; fix: disjoint entries only, a file fixed twice in one run races with itself) and a "
        "Hypothesis-drawn per-file delay vector injected into every worker (hooks/sitecustomize.py sleeps in "
        "Linter.render_file), so the completion permutation is the generated object. Oracle: exit status equal; JSON "
        "records minus timings equal as multisets keyed by file path; for fix the bytes of every file equal "
        "afterwards (separate copies of the project); each file reported exactly once per given path covering it "
        "(skipped files never); no traceback only in the parallel run. Non-trivial: the order in which the main "
        "process received the results (logged by the injector at LintedDir.add) differs from the submission order; "
        "distinct = distinct case digest."
    )
    assumptions = [
        "schedules are the ones the harness can force (completion orders through per-file start delays), not "
        "OS-level interleavings inside a worker",
        "the order of human-readable output lines is not compared",
        "the injector wraps Linter.render_file / LintedDir.add and passes arguments and results through unchanged",
    ]

    def pinned(self, tier):
        yield _hand("lint", 4, ["other", "sub", "f7.sql", "f1.sql", "f0.sql"], REVERSING, ["ctx"])
        yield _hand("fix", 4, ["sub", "f0.sql", "other", "f1.sql", "f7.sql"], REVERSING, ["caps", "ctx"])
        yield _hand("lint", 2, [".", "sub/f2.sql", "sub", "."], REVERSING, ["tiny-limit"], skip_fail=True,
                    cli_dialect=False)
        yield _hand("fix", 8, ["."], REVERSING, ["maxlen"], cli_extra=["--exclude-rules", "CP01,LT02"],
                    skip_fail=True)
        if tier == "thorough":
            for n in (2, 4, 8):
                for cmd in ("lint", "fix"):
                    yield _hand(cmd, n, ["./sub/", "./other", "f1.sql", "f0.sql", "f7.sql"],
                                dict(REVERSING, **{"f3.sql": 0.3, "f4.sql": 0.2}), ["rules", "excl"])

    def strategy(self, tier):
        # the filter also keeps Hypothesis' all-minimal first example (no delays at all) out of a small budget
        return cases(tier).filter(lambda c: len(set(c["delays"].values())) > 1)

    def examples(self, tier):
        return 2 if tier == "quick" else 40

    def budget_s(self, tier):
        return 300.0 if tier == "quick" else 1700.0

    # ------------------------------------------------------------------------------------------ one case

    def run_case(self, case):
        out = Outcome()
        cmd = case["cmd"]
        nproc = int(case["processes"])
        files = project_files(case)
        sql_files = sorted(f["path"] for f in case["files"])
        kind_of = {f["path"]: f["kind"] for f in case["files"]}
        base = ["--dialect", "ansi"] if case.get("cli_dialect") else []
        base += list(case.get("cli_extra") or [])
        paths = list(case["paths"])
        ref_paths = sorted(paths)
        out.label("cmd:" + cmd, "N=%d" % nproc, "paths:%d" % len(paths))
        for k in sorted(set(kind_of.values())):
            out.label("has:" + k)
        for k in case.get("sub_cfg") or []:
            out.label("sub:" + k)
        if len(set(os.path.normpath(p) for p in paths)) < len(paths) or len(expand(paths, sql_files)) > len(
                set(expand(paths, sql_files))):
            out.label("duplicated-paths")
        if paths != ref_paths:
            out.label("permuted-paths")

        root_a = P.fresh_dir("c24a-")
        root_b = P.fresh_dir("c24b-") if cmd == "fix" else root_a
        logdir = P.fresh_dir("c24log-")
        try:
            P.write_tree(root_a, files)
            if root_b != root_a:
                P.write_tree(root_b, files)
            before = P.read_tree(root_a)

            def args(n, pths):
                if cmd == "lint":
                    return ["lint", "--format", "json", "--processes", str(n)] + base + pths
                return ["fix", "--processes", str(n)] + base + pths

            log_a = os.path.join(logdir, "serial.log")
            log_b = os.path.join(logdir, "parallel.log")
            rc_a, so_a, se_a = P.run_cli(args(1, ref_paths), root_a, delays={}, schedlog=log_a)
            rc_b, so_b, se_b = P.run_cli(args(nproc, paths), root_b, delays=case.get("delays") or {}, schedlog=log_b)
            ev_a, ev_b = P.read_schedlog(log_a), P.read_schedlog(log_b)
            if any(e[0] == "hook-error" for e in ev_a + ev_b):
                raise RuntimeError("injector failed: %r" % [e for e in ev_a + ev_b if e[0] == "hook-error"][:2])

            # ---- domain: a crash of the serial run belongs to C04
            if P.is_traceback(se_a) or rc_a not in (0, 1):
                out.excluded = "crash(C04): serial run rc=%s" % rc_a
                return out
            if P.is_traceback(se_b) or rc_b not in (0, 1):
                out.fail("parallel run rc=%s, serial rc=%s; stderr tail: %s" % (rc_b, rc_a, se_b[-300:]),
                         clause="parallel-only-crash", cmd=cmd)
                return out

            # ---- observed schedule
            added = [os.path.normpath(w) for e, _, w in ev_b if e == "add"]
            submitted = expand(paths, sql_files)
            remaining = collections.Counter(added)
            sub_seen = []
            for p in submitted:
                if remaining[p] > 0:
                    remaining[p] -= 1
                    sub_seen.append(p)
            workers = {pid for e, pid, _ in ev_b if e == "render"}
            out.label("workers-used:%d" % min(len(workers), 8))
            if added != sub_seen:
                out.nontrivial = True
                out.label("completion-order!=submission-order")
            out.info = {"completion": added[:14], "submission": sub_seen[:14]}

            # ---- oracle
            if rc_a != rc_b:
                out.fail("exit status serial=%s parallel(N=%d)=%s" % (rc_a, nproc, rc_b), clause="exit-status", cmd=cmd)
            cover = collections.Counter(submitted)
            if cmd == "lint":
                recs_a, recs_b = P.json_records(so_a), P.json_records(so_b)
                if recs_a is None:
                    out.excluded = "crash(C04): serial output is not JSON"
                    return out
                if recs_b is None:
                    out.fail("parallel stdout is not JSON: %r" % so_b[:200], clause="output-format", cmd=cmd)
                    return out

                def keyed(recs):
                    d = collections.defaultdict(list)
                    for r in recs:
                        d[os.path.normpath(r["filepath"])].append(json.dumps(r, sort_keys=True))
                    return {k: sorted(v) for k, v in d.items()}

                ka, kb = keyed(recs_a), keyed(recs_b)
                for run, kk in (("serial", ka), ("parallel", kb)):
                    for path, lst in kk.items():
                        if path not in cover:
                            out.fail("%s run reports %s which is under no given path" % (run, path),
                                     clause="multiplicity", run=run, what="foreign")
                        elif len(lst) != cover[path]:
                            out.fail("%s run reports %s %d times, given paths cover it %d times"
                                     % (run, path, len(lst), cover[path]), clause="multiplicity", run=run, what="count")
                    if any(kind_of.get(p) == "oversized" for p in kk):
                        out.fail("%s run reports the oversized file" % run, clause="oversized-reported", run=run)
                for path in sorted(set(ka) | set(kb)):
                    if path not in kb:
                        out.fail("%s reported by the serial run only" % path, clause="records", what="missing",
                                 kind=kind_of.get(path, "?"))
                    elif path not in ka:
                        out.fail("%s reported by the parallel run only" % path, clause="records", what="extra",
                                 kind=kind_of.get(path, "?"))
                    elif ka[path] != kb[path]:
                        out.fail("records of %s differ: serial %s parallel %s" % (path, ka[path][0][:250], kb[path][0][:250]),
                                 clause="records", what="differs", kind=kind_of.get(path, "?"))
                if ka and any(json.loads(r)["violations"] for v in ka.values() for r in v):
                    out.label("has-violations")
                after = P.read_tree(root_a)
                if after != before:
                    out.fail("lint changed files: %s" % sorted(k for k in set(before) | set(after)
                                                              if before.get(k) != after.get(k))[:5],
                             clause="lint-wrote", cmd=cmd)
            else:
                tree_a, tree_b = P.read_tree(root_a), P.read_tree(root_b)
                changed = sorted(k for k in tree_a if tree_a[k] != before.get(k))
                if changed:
                    out.label("fix-changed-files")
                for path in sorted(set(tree_a) | set(tree_b)):
                    if tree_a.get(path) != tree_b.get(path):
                        out.fail("after fix %s differs: serial %r parallel %r"
                                 % (path, (tree_a.get(path) or b"")[:120], (tree_b.get(path) or b"")[:120]),
                                 clause="fixed-bytes", kind=kind_of.get(path, "other"))
                for run, tree in (("serial", tree_a), ("parallel", tree_b)):
                    for f in case["files"]:
                        if f["kind"] == "oversized" and tree.get(f["path"]) != f["sql"].encode("utf-8"):
                            out.fail("%s fix rewrote the oversized file" % run, clause="oversized-rewritten", run=run)
                # each file handed to persist at most once per covering path
                for run, ev in (("serial", ev_a), ("parallel", ev_b)):
                    pers = collections.Counter(os.path.normpath(w) for e, _, w in ev if e == "persist")
                    for path, c in pers.items():
                        if c > cover.get(path, 0):
                            out.fail("%s run persisted %s %d times (covered %d times)" % (run, path, c, cover.get(path, 0)),
                                     clause="multiplicity", run=run, what="persist")
            return out
        finally:
            P.rmtree(root_a)
            if root_b != root_a:
                P.rmtree(root_b)
            P.rmtree(logdir)


CHECK = C24()
