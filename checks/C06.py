"""C06 Parsing is deterministic and unaffected by parser optimisations."""
import json
import os
import subprocess
import sys

from hypothesis import strategies as st

from vlib import gens
from vlib.framework import Check, Outcome
from vlib.sf import Crash, guard, mkcfg

FRESH_SNIPPET = r"""
import json, sys, logging
logging.disable(logging.CRITICAL)
sys.path.insert(0, %r)
from checks.C06 import parse_sig
case = json.load(sys.stdin)
print(json.dumps(parse_sig(case["sql"], case["dialect"])))
"""


INLINE = ["-- sqlfluff:indentation:indented_joins:True\n", "-- sqlfluff:indentation:indented_using_on:False\n",
          "-- sqlfluff:indentation:template_blocks_indent:False\n", "-- sqlfluff:max_parse_depth:40\n",
          "-- sqlfluff:indentation:indented_ctes:True\n-- sqlfluff:indentation:indented_then:False\n"]


def parse_sig(sql, dialect, linter=None):
    """(tree tuple with raws, metas and positions, violation descriptions) as JSON-comparable data.
    With `linter` the same Linter object is re-used (state carried from earlier files); otherwise a fresh one."""
    from sqlfluff.core import Linter

    lnt = linter or Linter(config=mkcfg(dialect=dialect))
    ps = lnt.parse_string(sql)
    out = []
    for v in ps.parsed_variants:
        t = v.tree.to_tuple(show_raw=True, include_meta=True, include_position=True) if v.tree is not None else None
        out.append([t, [e.desc() for e in v.lexing_violations], [(e.desc(), e.line_no, e.line_pos) for e in v.parsing_violations]])
    return json.loads(json.dumps(out))


class _Instrument:
    """Switch optimisations off from outside (no source hook) and count their use."""

    def __init__(self, nocache=False, noprune=False):
        self.nocache, self.noprune = nocache, noprune
        self.hits = self.pruned = 0

    def __enter__(self):
        import sqlfluff.core.parser.context as ctxm
        import sqlfluff.core.parser.match_algorithms as ma

        self.ctxm, self.ma = ctxm, ma
        self.orig_check = ctxm.ParseContext.check_parse_cache
        self.orig_prune = ma.prune_options
        inst = self

        def check(self_, loc_key, matcher_key):
            if inst.nocache:
                return None
            r = inst.orig_check(self_, loc_key, matcher_key)
            if r is not None:
                inst.hits += 1
            return r

        def prune(options, segments, parse_context, start_idx=0):
            if inst.noprune:
                return list(options)
            r = inst.orig_prune(options, segments, parse_context=parse_context, start_idx=start_idx)
            inst.pruned += len(options) - len(r)
            return r

        ctxm.ParseContext.check_parse_cache = check
        ma.prune_options = prune
        return self

    def __exit__(self, *a):
        self.ctxm.ParseContext.check_parse_cache = self.orig_check
        self.ma.prune_options = self.orig_prune


def first_divergence(a, b, path="root"):
    if type(a) != type(b):
        return path
    if isinstance(a, list):
        if len(a) != len(b):
            return f"{path}[len {len(a)} vs {len(b)}]"
        for i, (x, y) in enumerate(zip(a, b)):
            if x != y:
                head = x[0] if isinstance(x, list) and x and isinstance(x[0], str) else i
                return first_divergence(x, y, f"{path}/{head}")
        return path
    return path if a != b else None


class C06(Check):
    id = "C06"
    level = "exploration"
    rule = (
        "Domain: fixture SQL (<=600 chars quick) of all dialects, unmutated and with Hypothesis-drawn mutations, plus a "
        "history: 0-3 other (dialect, sql) inputs (a third of them carrying inline '-- sqlfluff:' directives, half of them "
        "in the case's own dialect) parsed with the same Linter objects between two parses of the case; a "
        "Hypothesis-drawn ~6% are also parsed in a fresh subprocess. Oracle (differential): tree tuple with raws, metas "
        "and positions and the LXR/PRS violation lists are equal between the normal parse, a parse with the parse cache "
        "always missing, a parse with first-token pruning returning all options (the *un*optimised run is the "
        "reference), a repeat after the history, and the fresh process. Non-trivial: the normal parse had at least one "
        "parse-cache hit and at least one pruned option (counted by wrapping the two functions); distinct by SHA-1."
    )
    assumptions = ["cache and pruning are switched off by rebinding ParseContext.check_parse_cache and "
                   "match_algorithms.prune_options inside the check process; a refactoring that renames them makes the "
                   "selftest fail (exit 2), not pass silently"]

    def selftest(self):
        import sqlfluff.core.parser.context as ctxm
        import sqlfluff.core.parser.match_algorithms as ma

        assert hasattr(ctxm.ParseContext, "check_parse_cache") and hasattr(ma, "prune_options")
        with _Instrument() as ins:
            parse_sig("SELECT a, b FROM t WHERE a IN (1, 2) AND b = 3\n", "ansi")
        assert ins.hits > 0 and ins.pruned > 0, (ins.hits, ins.pruned)

    def pinned(self, tier):
        n = 2 if tier == "quick" else 25
        for c in gens.corpus_slice(n, maxsize=600 if tier == "quick" else 1200):
            c["between"] = []
            c["fresh"] = c["origin"].startswith("s") and tier != "quick"
            yield c

    def strategy(self, tier):
        mx = 600 if tier == "quick" else 1200
        # other inputs parsed in between: another fixture (any dialect), sometimes with inline "-- sqlfluff:" directives
        # (non-core sections too), sometimes forced into the case's own dialect so that they share its Linter
        other = st.tuples(gens.corpus_case(maxsize=400, mutate=False), st.integers(0, 2), st.sampled_from(INLINE), st.booleans())
        return st.tuples(gens.corpus_case(maxsize=mx), st.lists(other, max_size=3), st.integers(0, 15)).map(
            lambda t: dict(t[0], fresh=(t[2] == 0), between=[
                {"dialect": t[0]["dialect"] if o[3] else o[0]["dialect"], "sql": (o[2] if o[1] == 0 else "") + o[0]["sql"]}
                for o in t[1]]))

    def examples(self, tier):
        return 22 if tier == "quick" else 700

    def run_case(self, case):
        out = Outcome(labels=["dialect:" + case["dialect"]] + (["mutated"] if case.get("mutated") else []))
        sql, d = case["sql"], case["dialect"]
        from sqlfluff.core import Linter

        linters = {}

        def shared(dialect):
            if dialect not in linters:
                linters[dialect] = Linter(config=mkcfg(dialect=dialect))
            return linters[dialect]

        with _Instrument() as ins:
            base = guard(parse_sig, sql, d, shared(d))
        if isinstance(base, Crash):
            out.excluded = "crash(C04):" + base.type
            return out
        if ins.hits > 0 and ins.pruned > 0:
            out.nontrivial = True
        out.info = {"cache_hits": ins.hits, "pruned_options": ins.pruned}
        with _Instrument(nocache=True):
            nocache = guard(parse_sig, sql, d)
        with _Instrument(noprune=True):
            noprune = guard(parse_sig, sql, d)
        for name, other in (("cache", nocache), ("prune", noprune)):
            if isinstance(other, Crash):
                out.fail(f"parse without {name} raised {other!r} while the normal parse did not", which=name, kind="crash")
            elif other != base:
                out.fail(f"tree/violations differ with {name} disabled at {first_divergence(other, base)}", which=name,
                         kind="diverge")
        if case.get("between"):
            out.label("history:%d" % len(case["between"]))
            for o in case["between"]:
                guard(parse_sig, o["sql"], o["dialect"], shared(o["dialect"]))
                if o["sql"].startswith("-- sqlfluff:"):
                    out.label("history-with-inline-config")
        again = guard(parse_sig, sql, d, shared(d))
        if isinstance(again, Crash) or again != base:
            out.fail("second parse in the same process differs" + ("" if isinstance(again, Crash) else
                     " at " + str(first_divergence(again, base))), which="history", kind="diverge")
        if case.get("fresh"):
            out.label("fresh-process")
            here = os.path.dirname(os.path.dirname(os.path.abspath(__file__)))
            p = subprocess.run([sys.executable, "-c", FRESH_SNIPPET % here], input=json.dumps({"sql": sql, "dialect": d}),
                               capture_output=True, text=True, env=os.environ, timeout=600)
            if p.returncode != 0:
                out.label("fresh-process-failed")
            else:
                fresh = json.loads(p.stdout.strip().splitlines()[-1])
                if fresh != base:
                    out.fail(f"fresh process differs at {first_divergence(fresh, base)}", which="fresh-process", kind="diverge")
        return out


CHECK = C06()
