"""C11 Fixing preserves all untouched text byte-for-byte.

A case is one directory of files (several encodings / BOMs / line endings / undecodable bytes) that is fixed by
ONE run (`python -m sqlfluff fix DIR` or `Linter.lint_paths(fix=True, apply_fixes=True)`).  Before the run under
test, a read-only API lint of the same directory tells, per file, which encoding sqlfluff itself uses, which
source patches it is going to apply and whether it is going to write at all.  The oracle then compares bytes on
disk with the reference application of those patches to the *original bytes*.
"""
from __future__ import annotations

import codecs
import os
import re
import shutil
import subprocess
import sys
import tempfile

from hypothesis import strategies as st

from vlib import wfiles
from vlib.framework import Check, Outcome

# undecodable bytes are decoded to U+F700+b so that decoding is injective for every codec (surrogateescape cannot
# represent bytes < 0x80, which is what a broken UTF-16 unit consists of)
PUA = 0xF700


def _pua_errors(exc):
    if isinstance(exc, UnicodeDecodeError):
        return "".join(chr(PUA + b) for b in exc.object[exc.start:exc.end]), exc.end
    raise exc


codecs.register_error("verif-pua", _pua_errors)

_BOMS = [(codecs.BOM_UTF32_LE, "utf-32"), (codecs.BOM_UTF32_BE, "utf-32"), (codecs.BOM_UTF8, "utf-8"),
         (codecs.BOM_UTF16_LE, "utf-16"), (codecs.BOM_UTF16_BE, "utf-16")]


def bom_class(data: bytes):
    for b, name in _BOMS:
        if data.startswith(b):
            return name
    return None


def decode(data: bytes, enc: str) -> str:
    """Injective decoding: undecodable bytes become U+F700+b; nothing is normalised."""
    return data.decode(enc, "verif-pua")


def norm_eol(s: str) -> str:
    return s.replace("\r\n", "\n").replace("\r", "\n")


def as_sqlfluff_reads(o: str) -> str:
    """What `open(..., errors='backslashreplace')` + universal newlines gives for the same bytes."""
    return "".join("\\x%02x" % (ord(c) - PUA) if PUA <= ord(c) <= PUA + 0xFF else c for c in norm_eol(o))


def map_index(o_norm: str):
    """index in sqlfluff's source string -> index in o_norm (None inside an escape)."""
    m = {}
    si = 0
    for oi, c in enumerate(o_norm):
        m[si] = oi
        si += 4 if PUA <= ord(c) <= PUA + 0xFF else 1
    m[si] = len(o_norm)
    return m


def _is_pua(c):
    return PUA <= ord(c) <= PUA + 0xFF


def align(o_norm: str, src: str):
    """Generic alignment for a reader that does NOT use backslashreplace (replace, ignore, surrogateescape...):
    literal runs of o_norm must occur in src in order; whatever src holds in place of a run of undecodable bytes
    is skipped.  -> index map src -> o_norm for the positions inside/at the edges of literal runs, or None."""
    idx = {}
    si = oi = 0
    n = len(o_norm)
    while oi < n:
        j = oi
        if not _is_pua(o_norm[oi]):
            while j < n and not _is_pua(o_norm[j]):
                j += 1
            run = o_norm[oi:j]
            if not src.startswith(run, si):
                return None
            for k in range(len(run)):
                idx[si + k] = oi + k
            si += len(run)
        else:
            while j < n and _is_pua(o_norm[j]):
                j += 1
            k = j
            while k < n and not _is_pua(o_norm[k]):
                k += 1
            idx[si] = oi
            if k == j:
                si = len(src)
            else:
                si = src.find(o_norm[j:k], si)
                if si < 0:
                    return None
        oi = j
    if si != len(src):
        return None
    idx[si] = n
    return idx


def leaf_parts(tree, source_str):
    """The fixed tree, leaf by leaf: ("keep", a, b, raw) for a leaf that still carries exactly the text of its
    source range [a, b) - text no fix edited - and ("edit", None, None, raw) for changed / inserted leaves.
    Deleted leaves are simply absent."""
    parts = []
    for seg in tree.raw_segments:
        if not seg.raw:
            continue
        sl = seg.pos_marker.source_slice if seg.pos_marker else None
        if sl is not None and sl.stop > sl.start and source_str[sl] == seg.raw:
            parts.append(("keep", sl.start, sl.stop, seg.raw))
        else:
            parts.append(("edit", None, None, seg.raw))
    return parts


def reference_result(o_norm: str, parts, idx):
    """Expected file text: edited leaves as the fix wrote them, untouched leaves with the ORIGINAL characters of
    their source range (which differ from what sqlfluff holds in memory exactly where bytes were undecodable).
    -> text, or None when a leaf boundary falls inside an escape sequence."""
    out = []
    for kind, a, b, raw in parts:
        if kind == "keep":
            if a not in idx or b not in idx:
                return None
            out.append(o_norm[idx[a]:idx[b]])
        else:
            out.append(raw)
    return "".join(out)


def edited_ranges(parts, n):
    """Complement of the kept source ranges in [0, n) (for reporting and the whole-file statistic)."""
    kept = sorted((a, b) for k, a, b, _ in parts if k == "keep")
    res, pos = [], 0
    for a, b in kept:
        if a > pos:
            res.append((pos, a))
        pos = max(pos, b)
    if pos < n:
        res.append((pos, n))
    return res


# --------------------------------------------------------------------------- generator

DISK_ENCODINGS = ["ascii", "utf-8", "utf-8-sig", "utf-16", "latin-1", "cp1252"]
POOL_FOR = {"ascii": "ascii", "utf-8": "uni", "utf-8-sig": "uni", "utf-16": "uni", "latin-1": "latin",
            "cp1252": "cp1252"}
# bytes that cannot be decoded in the encoding (single bytes; utf-16: a lone surrogate unit, expanded below)
BAD_BYTES = {"ascii": [0xE9, 0xFF, 0x80], "utf-8": [0xFF, 0xC3, 0x80, 0xFE], "utf-8-sig": [0xFF, 0xC3, 0x80],
             "utf-16": [0xD8], "latin-1": [], "cp1252": [0x81, 0x8D, 0x9D]}
RULESETS = ["LT01", "LT01,CP01", "LT01,CP01,LT12", "LT01,LT12,CV05", "core"]
EOLS = ["\n", "\n", "\r\n", "\r\n", "\r", "mixed"]


def _eol(text, eol):
    if eol == "\n":
        return text
    if eol == "mixed":
        parts = text.split("\n")
        seps = ["\r\n", "\n", "\r"]
        return "".join(p + (seps[i % 3] if i < len(parts) - 1 else "") for i, p in enumerate(parts))
    return text.replace("\n", eol)


def _lower_keywords(text, which):
    """Lower-case every which-th upper-case keyword outside quotes/comments (gives CP01 something to fix)."""
    out = []
    for line in text.split("\n"):
        if line.startswith("/*"):
            out.append(line)
            continue
        code, sep, cmt = line.partition(" -- ")
        pieces = re.split(r"('[^']*')", code)
        k = 0
        for i, p in enumerate(pieces):
            if p.startswith("'"):
                continue

            def low(m):
                nonlocal k
                k += 1
                return m.group(0).lower() if k % which == 0 else m.group(0)

            pieces[i] = re.sub(r"\b[A-Z]{2,}\b", low, p)
        out.append("".join(pieces) + sep + cmt)
    return "\n".join(out)


@st.composite
def dir_case(draw, tier):
    cfg = draw(st.sampled_from(["autodetect", "autodetect", "autodetect", "utf-8", "utf-8", "utf-8-sig", "utf-16",
                                "latin-1", "cp1252", "ascii"]))
    nfiles = draw(st.integers(3, 6))
    files = []
    for i in range(nfiles):
        if cfg == "autodetect":
            disk = draw(st.sampled_from(DISK_ENCODINGS))
        elif cfg == "utf-8" and draw(st.integers(0, 5)) == 0:
            disk = "utf-8-sig"  # BOM in a file read as plain utf-8
        else:
            disk = cfg
        bad = BAD_BYTES[disk] if draw(st.integers(0, 9)) < 4 else []
        dirty = draw(st.integers(0, 4)) > 0
        pool = wfiles.POOLS[POOL_FOR[disk]] if draw(st.integers(0, 5)) else wfiles.POOLS["ascii"]
        t = draw(wfiles.sql_text(pool=pool, raw_bytes=bad, dirty=dirty, max_stmts=4))
        sql = t["sql"]
        if disk == "utf-16":
            sql = sql.replace(wfiles.raw(0xD8), wfiles.raw(0x00) + wfiles.raw(0xD8))  # lone high surrogate, LE
        if dirty and draw(st.booleans()):
            sql = _lower_keywords(sql, draw(st.integers(1, 3)))
        final = draw(st.sampled_from(["\n", "\n", "\n", "", "\n\n"])) if dirty else "\n"
        sql = sql.rstrip("\n") + final
        files.append({"name": "f%d%s.sql" % (i, draw(st.sampled_from(["", "_x", ".y"]))), "sql": sql,
                      "encoding": disk, "eol": draw(st.sampled_from(EOLS))})
    return {"mode": draw(st.sampled_from(["cli", "api"])), "cfg_encoding": cfg,
            "suffix": draw(st.sampled_from(["", "", "_fx"])), "rules": draw(st.sampled_from(RULESETS)),
            "files": files}


# --------------------------------------------------------------------------- check


def _cfg(case):
    from sqlfluff.core import FluffConfig

    return FluffConfig(overrides={"dialect": "ansi", "rules": case["rules"], "encoding": case["cfg_encoding"]},
                       ignore_local_config=True)


class C11(Check):
    id = "C11"
    level = "exploration"
    shrink_fields = ()
    rule = (
        "A case is a directory of 3-6 generated SQL files fixed by ONE run: `python -m sqlfluff fix --dialect ansi "
        "--rules R [--encoding E] [--fixed-suffix S] DIR` or Linter.lint_paths((DIR,), fix=True, apply_fixes=True). "
        "Files: statements with widened blanks / lower-cased keywords / missing or doubled final newline (fixable by "
        "LT01, CP01, LT12, CV05, core set) or no violation at all; string literals, line and block comments carry "
        "non-ASCII payload; on-disk encoding ascii, utf-8, utf-8-sig, utf-16, latin-1, cp1252; line ends LF, CRLF, "
        "CR or mixed; in 40 % of the files bytes that are undecodable in the on-disk encoding (0xFF/0xC3/0x80, "
        "cp1252 holes, a lone UTF-16 surrogate) inside comments and literals; `encoding` = autodetect (any on-disk "
        "encoding per file) or explicit (files in that encoding; sometimes a UTF-8 BOM under explicit utf-8). "
        "The effective encoding is NOT assumed: a read-only API lint of the same directory gives, per file, "
        "LintedFile.encoding (what get_encoding/chardet chose), the fixed tree and whether a write is due (fixable "
        "violations, no TMP/PRS error, fix_string() changed the text). sqlfluff's own FixPatch list is useless as "
        "the edited range for untemplated files (it is ONE patch covering the whole file, label "
        "sqlfluff-patch-covers-whole-file), so the edited ranges are taken leaf by leaf from the fixed tree: a "
        "leaf whose raw still equals the source text of its source_slice is untouched, everything else is edited. "
        "Oracle: original and result bytes are decoded with the effective encoding by an injective decoder "
        "(undecodable byte b -> U+F700+b), CRLF/CR -> LF on both; result must equal the reference text = edited "
        "leaves as fixed + untouched leaves with the ORIGINAL characters of their source range (so outside the "
        "edited ranges every character, hence every byte incl. undecodable ones, is unchanged); BOM class "
        "preserved; with a suffix the original keeps bytes/inode/mtime and the suffixed file is judged; a file "
        "with no write due keeps bytes, inode and mtime and gets no suffixed copy. If the reader is not the "
        "documented backslashreplace one the source is aligned generically (label reader-differs-...); cases that "
        "cannot be aligned, or whose fixed tree disagrees with fix_string, are excluded and counted. Non-trivial: "
        "some file of the case has non-ASCII bytes and was changed by the fix; distinct by SHA-1 of the case."
    )
    assumptions = [
        "the patches and the decision to write are taken from sqlfluff's own read-only API run on the same bytes "
        "(C10/C30 judge the patches themselves)",
        "line-end style of the written file is not judged (the statement compares after normalising to LF)",
        "UTF-16 byte order is not judged: a big-endian file comes back little-endian with BOM, characters unchanged",
    ]

    def selftest(self):
        o = decode(b"a\xffb\r\nc", "utf-8")
        assert o == "a" + chr(PUA + 0xFF) + "b\r\nc"
        assert as_sqlfluff_reads(o) == "a\\xffb\nc"
        idx = map_index(norm_eol(o))
        assert idx[0] == 0 and idx[1] == 1 and idx[5] == 2 and 3 not in idx
        o2 = "SELECT  a -- " + chr(PUA + 255) + "\n"
        parts = [("keep", 0, 6, "SELECT"), ("edit", None, None, " "), ("keep", 8, 9, "a"), ("keep", 9, 10, " "),
                 ("keep", 10, 17, "-- \\xff"), ("keep", 17, 18, "\n")]
        assert reference_result(o2, parts, map_index(o2)) == "SELECT a -- " + chr(PUA + 255) + "\n"
        assert edited_ranges(parts, 18) == [(6, 8)]
        assert reference_result(o2, [("keep", 0, 15, "x")], map_index(o2)) is None
        a = align(o2, "SELECT  a -- \ufffd\n")
        assert a is not None and a[13] == 13 and a[14] == 14 and a[15] == 15 and a[0] == 0
        assert align(o2, "SELECT  a -- \n")[14] == 15 and align(o2, "SELEKT  a -- ?\n") is None
        assert decode(b"\xff\xfea\x00\x00\xd8b\x00", "utf-16") == "a" + chr(PUA) + chr(PUA + 0xD8) + "b"
        assert bom_class(b"\xef\xbb\xbfx") == "utf-8" and bom_class(b"x") is None
        assert _eol("a\nb\nc\nd\n", "mixed") == "a\r\nb\nc\rd\r\n"
        assert _lower_keywords("SELECT 'AB' FROM t -- FROM", 1) == "select 'AB' from t -- FROM"

    def strategy(self, tier):
        return dir_case(tier)

    def examples(self, tier):
        return 6 if tier == "quick" else 200

    def budget_s(self, tier):
        return 1500.0 if tier == "quick" else 3000.0

    # ------------------------------------------------------------------

    def run_case(self, case):
        from sqlfluff.core import Linter
        from sqlfluff.core.linter.patch import generate_source_patches

        from vlib.sf import Crash, guard

        out = Outcome()
        wfiles.no_tqdm_monitor()
        mode = case.get("mode", "api")
        cfg_enc = case.get("cfg_encoding", "autodetect")
        suffix = case.get("suffix") or ""
        out.label("mode:" + mode, "cfg:" + ("autodetect" if cfg_enc == "autodetect" else "explicit"),
                  "suffix" if suffix else "no-suffix", "rules:" + case["rules"])
        base = tempfile.mkdtemp(prefix="c11-", dir=os.environ.get("VERIF_SCRATCH"))
        try:
            d = os.path.join(base, "w")
            cwd = os.path.join(base, "cwd")
            os.makedirs(d)
            os.makedirs(cwd)
            files = []
            for f in case["files"]:
                data = wfiles.encode_raw(_eol(f["sql"], f.get("eol", "\n")), f["encoding"])
                p = os.path.join(d, f["name"])
                with open(p, "wb") as fh:
                    fh.write(data)
                os.utime(p, ns=(1_600_000_000_000_000_000, 1_600_000_000_000_000_000))
                s = os.stat(p)
                files.append({"name": f["name"], "path": p, "orig": data, "ino": s.st_ino, "mtime": s.st_mtime_ns,
                              "disk": f["encoding"], "eol": f.get("eol", "\n"), "has_bad": wfiles.has_raw(f["sql"])})
            # ---- reference: read-only API lint of the same bytes
            ref = guard(lambda: Linter(config=_cfg(case)).lint_paths((d,), fix=True, apply_fixes=False,
                                                                     retain_files=True))
            if isinstance(ref, Crash):
                out.excluded = "crash(C04):" + ref.type
                return out
            by_name = {os.path.basename(lf.path): lf for ldir in ref.paths for lf in ldir.files}
            for f in files:
                lf = by_name.get(f["name"])
                f["lf"] = lf
                if lf is None:
                    f["plan"] = "skipped"  # could not be linted (internal error is C04's business): must stay untouched
                    continue
                f["enc"] = lf.encoding
                try:
                    o = decode(f["orig"], lf.encoding)
                except LookupError:
                    out.excluded = "unknown-codec:" + str(lf.encoding)
                    return out
                f["o_norm"] = norm_eol(o)
                f["undecodable"] = any(PUA <= ord(c) <= PUA + 0xFF for c in o)
                src = lf.templated_file.source_str if lf.templated_file else None
                if src is None:
                    f["plan"] = "keep"  # not even templated: nothing can be written
                    continue
                if src == as_sqlfluff_reads(o):
                    f["idx"] = map_index(f["o_norm"])
                else:
                    # the reader is not the documented backslashreplace one: align generically
                    f["idx"] = align(f["o_norm"], src)
                    f["other_reader"] = True
                    if f["idx"] is None:
                        f["plan"] = "unmodelled-read"
                        continue
                tmp_prs = lf.num_violations(types=_tmp_prs(), filter_ignore=False, filter_warning=False)
                if lf.num_violations(fixable=True, filter_warning=False) > 0 and tmp_prs == 0 and lf.tree is not None:
                    fs = guard(lf.fix_string)
                    if isinstance(fs, Crash):
                        out.excluded = "crash(C04):" + fs.type
                        return out
                    fixed, changed = fs
                    if changed:
                        patches = lf.source_patches
                        if patches is None:
                            patches = generate_source_patches(lf.tree, lf.templated_file)
                        f["whole_file_patch"] = any(p.source_slice.start == 0 and p.source_slice.stop >= len(src)
                                                    for p in patches)
                        f["parts"] = leaf_parts(lf.tree, src)
                        if "".join(p[3] for p in f["parts"]) != fixed:
                            f["plan"] = "unmodelled-fix"  # fixed tree and fix_string disagree: C10/C30's business
                            continue
                        f["src_len"] = len(src)
                        f["plan"] = "write"
                        continue
                f["plan"] = "keep"
                if tmp_prs:
                    f["unparsable"] = True
            # the reference lint must itself be read-only
            for f in files:
                if open(f["path"], "rb").read() != f["orig"]:
                    raise RuntimeError("reference lint modified " + f["name"])
            # ---- the run under test
            if mode == "cli":
                cmd = [sys.executable, "-m", "sqlfluff", "fix", "--dialect", "ansi", "--rules", case["rules"],
                       "--processes", "1"]
                if cfg_enc != "autodetect":
                    cmd += ["--encoding", cfg_enc]
                if suffix:
                    cmd += ["--fixed-suffix", suffix]
                cmd += [d]
                p = subprocess.run(cmd, cwd=cwd, env=dict(os.environ), stdout=subprocess.PIPE,
                                   stderr=subprocess.STDOUT, timeout=300)
                tail = p.stdout.decode(errors="replace")[-400:]
                if "Traceback (most recent call last)" in tail:
                    out.excluded = "crash(C04):cli-traceback"
                    return out
            else:
                r = guard(lambda: Linter(config=_cfg(case)).lint_paths((d,), fix=True, apply_fixes=True,
                                                                       fixed_file_suffix=suffix, retain_files=False))
                if isinstance(r, Crash):
                    out.excluded = "crash(C04):" + r.type
                    return out
            # ---- oracle
            listing = set(os.listdir(d))
            expected_names = {f["name"] for f in files}
            for f in files:
                self._judge_file(case, f, suffix, cfg_enc, mode, d, listing, expected_names, out)
            extra = sorted(listing - expected_names)
            if extra:
                out.fail(f"unexpected files {extra}", kind="unexpected-file", mode=mode, cfg=_cfgkind(cfg_enc))
        finally:
            shutil.rmtree(base, ignore_errors=True)
        return out

    def _judge_file(self, case, f, suffix, cfg_enc, mode, d, listing, expected_names, out):
        plan = f["plan"]
        sig = {"mode": mode, "cfg": _cfgkind(cfg_enc), "suffix": bool(suffix)}
        out.label("plan:" + plan, "disk:" + f["disk"], "eol:" + repr(f["eol"]))
        if f.get("enc"):
            out.label("effective:" + str(f["enc"]).lower())
        if f.get("undecodable"):
            out.label("undecodable-in-effective-encoding")
        with open(f["path"], "rb") as fh:
            now = fh.read()
        s = os.stat(f["path"])
        same_file = now == f["orig"] and (s.st_ino, s.st_mtime_ns) == (f["ino"], f["mtime"])
        root, ext = os.path.splitext(f["name"])
        sfx_name = root + suffix + ext if suffix else None
        if plan == "unmodelled-read":
            out.excluded = "reference-read-not-modelled"
            return
        if plan in ("keep", "skipped"):
            out.label("no-applicable-fix" + (":unparsable" if f.get("unparsable") else ""))
            if not same_file:
                what = "bytes" if now != f["orig"] else "inode/mtime"
                out.fail(f"{f['name']} has no applicable fix but its {what} changed: {f['orig'][:80]!r} -> {now[:80]!r}",
                         kind="unchanged-file-rewritten", **sig)
            if sfx_name and sfx_name in listing:
                out.fail(f"{sfx_name} written although {f['name']} has no applicable fix", kind="unexpected-file", **sig)
            return
        if plan == "unmodelled-fix":
            out.excluded = "fixed-tree-differs-from-fix_string"
            return
        # plan == write
        if f.get("other_reader"):
            out.label("reader-differs-from-backslashreplace")
        expected = reference_result(f["o_norm"], f["parts"], f["idx"])
        if expected is None:
            out.excluded = "token-boundary-inside-escape"
            return
        ranges = edited_ranges(f["parts"], f["src_len"])
        if f.get("whole_file_patch"):
            out.label("sqlfluff-patch-covers-whole-file")
        if suffix:
            expected_names.add(sfx_name)
            if not same_file:
                out.fail(f"original {f['name']} touched although --fixed-suffix is set", kind="original-touched", **sig)
            target = os.path.join(d, sfx_name)
            if sfx_name not in listing:
                out.fail(f"{sfx_name} not written", kind="fix-not-written", **sig)
                return
            with open(target, "rb") as fh:
                now = fh.read()
        elif now == f["orig"]:
            out.fail(f"{f['name']}: a write was due ({len(ranges)} edited ranges) but the bytes are unchanged",
                     kind="fix-not-written", **sig)
            return
        out.label("fix-changed-file")
        if not f["orig"].isascii():
            out.nontrivial = True
            out.label("non-ascii+changed")
        # planted: the generator put bytes into the file that are invalid in its on-disk encoding; without them the
        # file is valid as written and any "undecodable" byte is the consequence of the encoding sqlfluff chose
        sig2 = dict(sig, undecodable=bool(f.get("undecodable")), planted=bool(f.get("has_bad")))
        if bom_class(now) == "utf-16" and now[:2] != f["orig"][:2]:
            out.label("utf16-byte-order-changed(not-judged)")
        if bom_class(now) != bom_class(f["orig"]):
            out.fail(f"{f['name']}: BOM {bom_class(f['orig'])} -> {bom_class(now)}; effective encoding {f['enc']}",
                     kind="bom-changed", **sig2)
            return
        try:
            r = norm_eol(decode(now, f["enc"]))
        except Exception as e:  # noqa
            out.fail(f"{f['name']}: result not decodable at all in {f['enc']}: {e}", kind="result-undecodable", **sig2)
            return
        if r == expected:
            return
        i = next((k for k in range(min(len(r), len(expected))) if r[k] != expected[k]), min(len(r), len(expected)))
        ctx = f"{f['name']} ({f['disk']} on disk, read as {f['enc']}): at char {i} expected " \
              f"{expected[max(0, i - 20):i + 20]!r} got {r[max(0, i - 20):i + 20]!r}; edited source ranges {ranges[:6]}"
        # classify: do the only differences consist of undecodable bytes written as backslash escapes?
        if as_sqlfluff_reads(expected) == r and f.get("undecodable"):
            out.fail(ctx, kind="undecodable-bytes-written-as-escape-text", **sig2)
        else:
            out.fail(ctx, kind="untouched-text-changed", **sig2)


def _cfgkind(cfg_enc):
    return "autodetect" if cfg_enc == "autodetect" else "explicit"


def _tmp_prs():
    from sqlfluff.core.errors import SQLParseError, SQLTemplaterError

    return (SQLTemplaterError, SQLParseError)


CHECK = C11()
