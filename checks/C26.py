"""C26 Writing fixed files is atomic and faithful (fault enumeration).

One *case* is a scenario (1-3 files in a directory, encoding, mode bits, suffix or none, injector kind).
`run_case` enumerates EVERY fault point of that scenario:

* in-process: a dry run with counting wrappers learns how many calls of each operation the write path
  makes; then one re-run per (operation, n-th call, exception kind) in a freshly rebuilt directory;
* strace: a dry run under `strace -f -y` learns, per syscall name, the ordinals of the calls that touch the
  scenario directory; then one re-run per (syscall, ordinal) x {error=EIO, error=ENOSPC (data syscalls),
  signal=KILL}; after an injected rename error the fallback path of shutil.move is enumerated the same way
  (two-fault sequences).
"""
from __future__ import annotations

import contextlib
import errno
import itertools
import os
import re
import shutil
import stat
import subprocess
import sys
import tempfile
from collections import Counter

from hypothesis import strategies as st

from vlib import wfiles
from vlib.framework import Check, Outcome

ENCODINGS = ["utf-8", "utf-8-sig", "utf-16", "latin-1"]
MODES = [0o644, 0o600, 0o640, 0o664, 0o755, 0o444, 0o400, 0o666]
SUFFIXES = ["", "", "_fixed", "-v2"]

# --------------------------------------------------------------------------- scenario on disk


class Scenario:
    def __init__(self, case, base):
        self.case = case
        self.base = base
        self.dir = os.path.join(base, "w")
        self.cwd = os.path.join(base, "cwd")
        self.suffix = case.get("suffix") or ""
        self.files = []
        for f in case["files"]:
            enc = f["encoding"]
            orig = wfiles.encode_raw(f["sql"], enc)
            dirty = f["sql"] != f["fixed"]
            root, ext = os.path.splitext(f["name"])
            self.files.append({
                "name": f["name"], "enc": enc, "mode": int(f["mode"]), "orig": orig, "dirty": dirty,
                "fixed_forms": wfiles.fixed_byte_forms(f["fixed"], enc) if dirty else set(),
                "out": (root + self.suffix + ext) if self.suffix else f["name"],
            })
        self.orig_names = {f["name"] for f in self.files}
        self.allowed_names = self.orig_names | {f["out"] for f in self.files if f["dirty"]}

    def reset(self):
        shutil.rmtree(self.dir, ignore_errors=True)
        os.makedirs(self.dir)
        os.makedirs(self.cwd, exist_ok=True)
        for f in self.files:
            p = os.path.join(self.dir, f["name"])
            with open(p, "wb") as fh:
                fh.write(f["orig"])
            os.chmod(p, f["mode"])
            st_ = os.stat(p)
            f["ino"], f["mtime_ns"] = st_.st_ino, st_.st_mtime_ns

    def path(self, name):
        return os.path.join(self.dir, name)


def _read(p):
    try:
        with open(p, "rb") as fh:
            return fh.read(), stat.S_IMODE(os.stat(p).st_mode)
    except FileNotFoundError:
        return None, None


def judge(scn: Scenario, how: str):
    """-> list of (kind, detail).  how: 'success' (no fault), 'error' (fault, process survived), 'kill'."""
    problems = []
    listing = set(os.listdir(scn.dir))
    for f in scn.files:
        data, mode = _read(scn.path(f["name"]))
        if data is None:
            problems.append(("target-missing", f"{f['name']} no longer exists"))
            continue
        if scn.suffix or not f["dirty"]:
            # the original must never change (suffix run / nothing to fix)
            if data != f["orig"] or mode != f["mode"]:
                kind = "original-modified-with-suffix" if f["dirty"] else "clean-file-modified"
                problems.append((kind, f"{f['name']}: {data[:60]!r} mode {oct(mode)} (orig {f['orig'][:60]!r} "
                                       f"{oct(f['mode'])})"))
            if not f["dirty"]:
                if how == "success":
                    st_ = os.stat(scn.path(f["name"]))
                    if (st_.st_ino, st_.st_mtime_ns) != (f["ino"], f["mtime_ns"]):
                        problems.append(("clean-file-rewritten", f"{f['name']} inode/mtime changed"))
                continue
            odata, omode = _read(scn.path(f["out"]))
            if odata is None:
                if how == "success":
                    problems.append(("success-not-fixed", f"{f['out']} was not written"))
                continue
            if odata not in f["fixed_forms"]:
                problems.append(("target-corrupt", f"{f['out']} holds {odata[:80]!r}, neither absent nor the fixed "
                                                   f"bytes {sorted(f['fixed_forms'])[0][:80]!r}"))
            elif omode != f["mode"]:
                problems.append(("mode-lost", f"{f['out']} mode {oct(omode)} expected {oct(f['mode'])}"))
            continue
        # in-place fix of a dirty file: (orig bytes | fixed bytes) and the original mode
        if data == f["orig"]:
            state = "orig"
        elif data in f["fixed_forms"]:
            state = "fixed"
        else:
            problems.append(("target-corrupt", f"{f['name']} holds {data[:80]!r}: neither original "
                                               f"{f['orig'][:80]!r} nor fixed {sorted(f['fixed_forms'])[0][:80]!r}"))
            continue
        if mode != f["mode"]:
            problems.append(("mode-lost", f"{f['name']} ({state}) mode {oct(mode)} expected {oct(f['mode'])}"))
        if how == "success" and state != "fixed":
            problems.append(("success-not-fixed", f"{f['name']} still has its original bytes"))
    if how != "kill":
        extra = sorted(listing - scn.allowed_names)
        if extra:
            problems.append(("leftover-temp", f"unexpected directory entries {extra}"))
    return problems


# --------------------------------------------------------------------------- in-process injector

EXC_KINDS = {
    "ntf": ["OSError", "KeyboardInterrupt"],
    "open": ["OSError", "KeyboardInterrupt"],
    "write": ["OSError", "OSError-partial", "KeyboardInterrupt"],
    "flush": ["OSError", "KeyboardInterrupt"],
    "fsync": ["OSError", "KeyboardInterrupt"],
    "close": ["OSError", "KeyboardInterrupt"],
    "chmod": ["OSError", "KeyboardInterrupt"],
    "move": ["OSError", "KeyboardInterrupt"],
    "rename": ["OSError", "KeyboardInterrupt"],
    "replace": ["OSError", "KeyboardInterrupt"],
}


class Injector:
    """Counts calls of the write path's operations; raises at the planned (op, n)."""

    def __init__(self, plan=None):
        self.plan = plan  # (op, n, exc kind) or None
        self.counts = Counter()
        self.trace = []  # [(op, n)] in call order
        self.fired = False

    def due(self, op):
        self.counts[op] += 1
        self.trace.append((op, self.counts[op]))
        if self.plan and not self.fired and self.plan[0] == op and self.plan[1] == self.counts[op]:
            self.fired = True
            return self.plan[2]
        return None

    @staticmethod
    def exc(kind):
        if kind.startswith("KeyboardInterrupt"):
            return KeyboardInterrupt("injected")
        if kind == "OSError-partial":
            return OSError(errno.ENOSPC, "injected: no space left on device")
        return OSError(errno.EIO, "injected I/O error")

    def hit(self, op):
        kind = self.due(op)
        if kind:
            raise self.exc(kind)

    @contextlib.contextmanager
    def installed(self):
        import sqlfluff.core.linter.linted_file as lfm

        inj = self
        saved = {
            "ntf": tempfile.NamedTemporaryFile, "fsync": os.fsync, "chmod": os.chmod, "move": shutil.move,
            "rename": os.rename, "replace": os.replace,
        }
        had_open = "open" in vars(lfm)
        saved_open = vars(lfm).get("open")

        class FileProxy:
            def __init__(self, real):
                object.__setattr__(self, "_real", real)

            def write(self, data):
                kind = inj.due("write")
                if kind == "OSError-partial":
                    self._real.write(data[: len(data) // 2])
                    self._real.flush()
                if kind:
                    raise inj.exc(kind)
                return self._real.write(data)

            def flush(self):
                inj.hit("flush")
                return self._real.flush()

            def close(self):
                kind = inj.due("close")
                if kind and kind.startswith("KeyboardInterrupt"):
                    raise inj.exc(kind)
                self._real.close()
                if kind:
                    raise inj.exc(kind)

            def __enter__(self):
                self._real.__enter__()
                return self

            def __exit__(self, *a):
                kind = inj.due("close")
                if kind and kind.startswith("KeyboardInterrupt"):
                    raise inj.exc(kind)
                r = self._real.__exit__(*a)
                if kind:
                    raise inj.exc(kind)
                return r

            def __getattr__(self, k):
                return getattr(self._real, k)

            def __iter__(self):
                return iter(self._real)

        class TmpProxy(FileProxy):
            """Stands in for tempfile._TemporaryFileWrapper."""

            @property
            def file(self):
                fp = FileProxy(self._real.file)
                return fp

            def write(self, data):
                return FileProxy(self._real.file).write(data)

            def flush(self):
                inj.hit("flush")
                return self._real.flush()

        def ntf(*a, **k):
            inj.hit("ntf")
            return TmpProxy(saved["ntf"](*a, **k))

        def fsync(fd):
            inj.hit("fsync")
            return saved["fsync"](fd)

        def chmod(*a, **k):
            inj.hit("chmod")
            return saved["chmod"](*a, **k)

        def move(*a, **k):
            inj.hit("move")
            return saved["move"](*a, **k)

        def rename(*a, **k):
            inj.hit("rename")
            return saved["rename"](*a, **k)

        def replace(*a, **k):
            inj.hit("replace")
            return saved["replace"](*a, **k)

        def open_(file, mode="r", *a, **k):
            if any(c in mode for c in "wax+"):
                inj.hit("open")
                return FileProxy(open(file, mode, *a, **k))
            return open(file, mode, *a, **k)

        try:
            tempfile.NamedTemporaryFile = ntf
            os.fsync = fsync
            os.chmod = chmod
            shutil.move = move
            os.rename = rename
            os.replace = replace
            lfm.open = open_
            yield self
        finally:
            tempfile.NamedTemporaryFile = saved["ntf"]
            os.fsync = saved["fsync"]
            os.chmod = saved["chmod"]
            shutil.move = saved["move"]
            os.rename = saved["rename"]
            os.replace = saved["replace"]
            if had_open:
                lfm.open = saved_open
            else:
                with contextlib.suppress(AttributeError):
                    del lfm.open


# --------------------------------------------------------------------------- strace

TRACE = ("openat,open,creat,write,pwrite64,writev,sendfile,copy_file_range,fsync,fdatasync,ftruncate,truncate,"
         "fchmod,chmod,fchmodat,rename,renameat,renameat2,link,linkat,unlink,unlinkat")
DATA_SYSCALLS = {"write", "pwrite64", "writev", "sendfile", "copy_file_range"}
_LINE = re.compile(r"^(\d+)\s+(\w+)\((.*)$")
_CWD = re.compile(r"AT_FDCWD<[^>]*>")


_FDPATH = re.compile(r"\d+<([^>]*)>")
_QUOTED = re.compile(r'"((?:[^"\\]|\\.)*)"')
FD_ONLY = {"write", "pwrite64", "writev", "sendfile", "copy_file_range", "fsync", "fdatasync", "ftruncate", "fchmod"}


def _touches(name, shown, scn_dir):
    """Does this call refer to the scenario directory?  Only fd annotations count for calls that carry data
    (a write to stdout may *mention* the path), path arguments count for the rest."""
    paths = _FDPATH.findall(shown)
    if name not in FD_ONLY:
        paths += _QUOTED.findall(shown)
    return any(p == scn_dir or p.startswith(scn_dir + "/") for p in paths)


def parse_strace(text: str, scn_dir: str, orig_names):
    """-> (points, killed_line_touches, main_pid).  A point is a dict(sys, n, idx, args) for every call of the
    main process that touches the scenario directory (ordinals n count ALL calls of that syscall name in that
    process, which is what strace's `when=` counts)."""
    ordinals = Counter()
    points = []
    main_pid = None
    other_pid_touch = False
    for idx, line in enumerate(text.splitlines()):
        m = _LINE.match(line)
        if not m:
            continue
        pid, name, rest = m.group(1), m.group(2), m.group(3)
        if main_pid is None:
            main_pid = pid
        if "<... " in line and "resumed>" in line:
            continue
        ordinals[(pid, name)] += 1
        shown = _CWD.sub("AT_FDCWD", rest)
        if not _touches(name, shown, scn_dir):
            continue
        if "O_DIRECTORY" in shown:
            continue
        if name in ("openat", "open") and "O_RDONLY" in shown:
            mm = re.search(r'"([^"]*)"', shown)
            if mm and os.path.basename(mm.group(1)) in orig_names:
                continue  # reading a source file: lint path, not write path
        if pid != main_pid:
            other_pid_touch = True
            continue
        points.append({"sys": name, "n": ordinals[(pid, name)], "idx": idx, "args": shown[:160],
                       "injected": "(INJECTED)" in line})
    return points, other_pid_touch


def run_strace(scn: Scenario, log: str, injects=()):
    cmd = ["strace", "-f", "-y", "-s", "32", "-o", log, "-e", "trace=" + TRACE]
    if not any("signal=" in i for i in injects):
        cmd.insert(2, "--seccomp-bpf")  # much faster; signal injection needs plain ptrace stops
    for i in injects:
        cmd += ["-e", "inject=" + i]
    cmd += [sys.executable, "-m", "sqlfluff", "fix", "--dialect", "ansi", "--rules", "LT01", "--processes", "1"]
    enc = scn.case.get("cfg_encoding", "autodetect")
    if enc != "autodetect":
        cmd += ["--encoding", enc]
    if scn.suffix:
        cmd += ["--fixed-suffix", scn.suffix]
    cmd += [scn.dir]
    env = dict(os.environ)
    p = subprocess.run(cmd, cwd=scn.cwd, env=env, stdout=subprocess.PIPE, stderr=subprocess.STDOUT, timeout=300)
    try:
        with open(log, errors="replace") as fh:
            text = fh.read()
    except FileNotFoundError:
        text = ""
    return p.returncode, p.stdout.decode(errors="replace"), text


# --------------------------------------------------------------------------- strategies


@st.composite
def scenarios(draw, tier, inject):
    nmax = 3
    entry = None
    if inject == "inproc":
        entry = draw(st.sampled_from(["persist_changes"] * 4 + ["lint_paths"]))
        if entry == "lint_paths" and tier == "quick":
            nmax = 2  # a full lint per fault point: keep the quick tier cheap
    if inject == "strace" and tier == "quick":
        nfiles = draw(st.sampled_from([1, 1, 1, 2]))
    else:
        nfiles = draw(st.integers(1, nmax))
    cfg_encoding = draw(st.sampled_from(["autodetect"] + ENCODINGS))
    files = []
    any_dirty = False
    for i in range(nfiles):
        if cfg_encoding == "autodetect":
            # only encodings sqlfluff recognises without guessing: BOMs, or pure ASCII (reported as 'ascii')
            enc = draw(st.sampled_from(["utf-8-sig", "utf-16", "utf-8"]))
            pool = "ascii" if enc == "utf-8" else "uni"
        else:
            enc = cfg_encoding
            pool = "latin" if enc == "latin-1" else "uni"
        pool = draw(st.sampled_from([pool, pool, "ascii"]))
        dirty = True if (i == nfiles - 1 and not any_dirty) else draw(st.integers(0, 4)) > 0
        any_dirty = any_dirty or dirty
        t = draw(wfiles.sql_text(pool=wfiles.POOLS[pool], dirty=dirty, max_stmts=2))
        files.append({"name": "abc"[i] + draw(st.sampled_from(["", "_q", ".v1"])) + ".sql", "sql": t["sql"],
                      "fixed": t["fixed"], "encoding": enc, "mode": draw(st.sampled_from(MODES))})
    case = {"inject": inject, "files": files, "suffix": draw(st.sampled_from(SUFFIXES)),
            "cfg_encoding": cfg_encoding}
    if inject == "inproc":
        case["entry"] = entry
    else:
        case["sequences"] = True  # quick: pinned() switches it off for every other scenario (cost)
    return case


# --------------------------------------------------------------------------- the check


def _cfg(encoding):
    """File-based runs rebuild the config per file from the overrides (make_child_from_path)."""
    from sqlfluff.core import FluffConfig

    return FluffConfig(overrides={"dialect": "ansi", "rules": "LT01", "encoding": encoding}, ignore_local_config=True)



class C26(Check):
    id = "C26"
    level = "fault_enumeration"
    shrink_fields = ()
    rule = (
        "A case is a Hypothesis-drawn scenario (in-process scenarios: per-shard generation; strace scenarios: a "
        "fixed-length list drawn from the same strategy under a seed derived from VERIF_SEED and dealt round-robin "
        "to the shards, 8 in quick / 240 in thorough): 1-3 files in one directory (SQL whose LT01 fix is known by "
        "construction: widened blanks between code chunks; literals/comments with non-ASCII payload), "
        "encoding utf-8 / utf-8-sig / utf-16 / latin-1 (explicit `encoding`, or autodetect for BOM/ASCII files), "
        "mode bits from {644,600,640,664,755,444,400,666}, fixed-suffix or none, some files without any violation. "
        "Per scenario EVERY fault point is enumerated. (a) in-process: a dry run through the real entry point "
        "(LintingResult.persist_changes -> LintedFile.persist_tree, or Linter.lint_paths(fix=True, "
        "apply_fixes=True)) with counting wrappers around tempfile.NamedTemporaryFile, the temp file's "
        "write/flush/close, os.fsync, os.chmod, shutil.move, os.rename, os.replace and a module-level open() "
        "lists the calls; then one re-run in a rebuilt directory per (operation, n-th call, OSError | "
        "KeyboardInterrupt | for write also ENOSPC after half of the data), plus per dirty file one real "
        "UnicodeEncodeError (LintedFile.encoding replaced by ascii while the text has non-ASCII characters). "
        "(b) strace: dry run of `python -m sqlfluff fix` under strace -f -y; every call of " + TRACE + " by the "
        "process that touches the scenario directory (except read-only opens of the source files and directory "
        "opens) is a fault point, re-run once with error=EIO (and ENOSPC for data syscalls) and once with "
        "signal=KILL at exactly that ordinal; after an injected rename error the calls of the shutil.move "
        "fallback are enumerated the same way as two-fault sequences (scenarios with sequences=true). "
        "Oracle after each run: every target is byte-for-byte its original or its expected fixed encoding (BOM "
        "included; utf-16 in either byte order) with the original mode bits; with a suffix the original is "
        "untouched and the suffixed file is absent or complete; files without violations keep bytes, mode (and "
        "inode/mtime on success); after an error (not a kill) the listing has no extra entry; on the fault-free "
        "run every dirty file is fixed. Non-trivial scenario: at least one enumerated fault at or after the "
        "first write of file data; distinct = distinct scenario digests (fault executions are counted "
        "separately in fault_executions / fault_points)."
    )
    assumptions = [
        "strace's when=N counter and a dry run's ordinals agree (checked per run: the INJECTED / killed call must "
        "touch the scenario directory, otherwise the point is counted as misfired and exhaustive is withdrawn)",
        "a SIGKILL delivered by strace on syscall entry is a process death at that point; power loss between rename "
        "and directory sync is not modelled",
        "the expected fixed text comes from the generator's own model of LT01 (checked against sqlfluff on the "
        "fault-free run; a disagreement excludes the scenario, it is not judged here)",
    ]

    # ---- framework hooks

    def selftest(self):
        base = tempfile.mkdtemp(dir=os.environ.get("VERIF_SCRATCH"))
        try:
            case = {"files": [{"name": "a.sql", "sql": "SELECT  1;\n", "fixed": "SELECT 1;\n", "encoding": "utf-8-sig",
                               "mode": 0o640}], "suffix": ""}
            scn = Scenario(case, base)
            scn.reset()
            assert judge(scn, "error") == []
            assert [k for k, _ in judge(scn, "success")] == ["success-not-fixed"]
            open(scn.path("a.sql"), "wb").write(b"\xef\xbb\xbfSELECT 1;\n")
            os.chmod(scn.path("a.sql"), 0o640)
            assert judge(scn, "success") == []
            open(scn.path("a.sql"), "wb").write(b"SELECT 1;\n")  # BOM lost
            assert [k for k, _ in judge(scn, "error")] == ["target-corrupt"]
            open(scn.path("a.sql"), "wb").write(b"\xef\xbb\xbfSELECT")  # truncated
            assert [k for k, _ in judge(scn, "kill")] == ["target-corrupt"]
            scn.reset()
            os.chmod(scn.path("a.sql"), 0o600)
            assert [k for k, _ in judge(scn, "error")] == ["mode-lost"]
            scn.reset()
            open(scn.path("a.sqlx1.sql"), "w").close()
            assert [k for k, _ in judge(scn, "error")] == ["leftover-temp"]
            assert judge(scn, "kill") == []
            os.remove(scn.path("a.sql"))
            assert "target-missing" in [k for k, _ in judge(scn, "kill")]
            log = ('7 openat(AT_FDCWD</x/w>, "/y/lib.so", O_RDONLY) = 3\n'
                   '7 write(1</dev/null>, "== [/x/w/a.sql] FAIL", 20) = 20\n'
                   '7 openat(AT_FDCWD</x/w>, "/x/w/a.sql", O_RDONLY|O_CLOEXEC) = 3</x/w/a.sql>\n'
                   '7 openat(AT_FDCWD</x/w>, "/x/w/a.sqlzz.sql", O_RDWR|O_CREAT|O_EXCL, 0600) = 3</x/w/a.sqlzz.sql>\n'
                   '7 write(3</x/w/a.sqlzz.sql>, "S", 1) = 1\n'
                   '7 rename("/x/w/a.sqlzz.sql", "/x/w/a.sql") = 0\n')
            pts, other = parse_strace(log, "/x/w", {"a.sql"})
            assert [(p["sys"], p["n"]) for p in pts] == [("openat", 3), ("write", 2), ("rename", 1)], pts
        finally:
            shutil.rmtree(base, ignore_errors=True)

    def pinned(self, tier):
        """The strace scenarios: drawn by Hypothesis from the same strategy under a seed derived from VERIF_SEED,
        as a fixed-length list, so that every shard gets the same number of (expensive) strace scenarios."""
        import hypothesis
        from hypothesis import HealthCheck, Phase, given, settings

        n = 8 if tier == "quick" else 240
        cases = []

        @hypothesis.seed(int(os.environ.get("VERIF_SEED", "1") or 1) * 7919 + 26)
        @settings(max_examples=n + 8, database=None, deadline=None, derandomize=False, phases=[Phase.generate],
                  suppress_health_check=list(HealthCheck))
        @given(scenarios(tier, "strace"))
        def collect(case):
            cases.append(case)

        collect()
        # distinct scenarios only (Hypothesis may repeat its simplest example)
        seen, uniq = set(), []
        for c in cases:
            k = repr(c)
            if k not in seen:
                seen.add(k)
                uniq.append(c)
        uniq = uniq[:n]
        if tier == "quick":
            # fixed schedule, not a random choice: two-fault sequences for single-file scenarios at even positions
            for i, c in enumerate(uniq):
                c["sequences"] = len(c["files"]) == 1 and i % 2 == 0
        return uniq

    def strategy(self, tier):
        return scenarios(tier, "inproc")

    def examples(self, tier):
        return 8 if tier == "quick" else 150

    def budget_s(self, tier):
        return 1500.0 if tier == "quick" else 3000.0

    def finish(self, tier, merged):
        labels = merged["labels"]
        fp = {k[3:]: v for k, v in labels.items() if k.startswith("fp:")}
        classes = {k: v for k, v in labels.most_common() if not k.startswith("fp:")}
        n_exec = sum(fp.values())
        incomplete = labels.get("scenario-incomplete", 0)
        return {
            "exhaustive": bool(labels.get("scenario-exhaustive", 0)) and incomplete == 0 and not merged["budget_hit"],
            "exhaustive_scope": "per scenario: every counted fault point (operation x ordinal x fault kind) was "
                                "executed and the fault verifiably fired; scenarios themselves are sampled",
            # oracle evaluations actually run: one per fault-free run (scenario / replay file) + one per fault run
            "evaluations": int(merged["evaluations"] + n_exec),
            "scenarios": int(labels.get("scenario-exhaustive", 0) + incomplete),
            "fault_executions": int(n_exec),
            "nontrivial_fault_executions": int(labels.get("nt-fault", 0)),
            "fault_points": dict(sorted(fp.items())),
            "classes": dict(list(classes.items())[:60]),
        }

    # ---- one scenario

    def run_case(self, case):
        out = Outcome()
        wfiles.no_tqdm_monitor()
        base = tempfile.mkdtemp(prefix="c26-", dir=os.environ.get("VERIF_SCRATCH"))
        try:
            scn = Scenario(case, base)
            out.label("inject:" + case["inject"], "files:%d" % len(scn.files),
                      "suffix" if scn.suffix else "no-suffix", "cfg-encoding:" + case.get("cfg_encoding", "autodetect"))
            for f in scn.files:
                out.label("enc:" + f["enc"], "mode:%o" % f["mode"], "dirty-file" if f["dirty"] else "clean-file")
            if case["inject"] == "inproc":
                self._inproc(case, scn, out)
            else:
                self._strace(case, scn, out, base)
        finally:
            shutil.rmtree(base, ignore_errors=True)
        return out

    # signature helper
    def _fail(self, out, scn, kind, detail, inject, op, fault, after=None, only=None):
        out.fail(f"{detail} | fault: {inject} {op} {fault}" + (f" after {after}" if after else "")
                 + (f" | replay with case.only={only}" if only else ""),
                 kind=kind, inject=inject, op=op, fault=fault.split(":")[0], after=after, suffix=bool(scn.suffix))

    # ---- (a) in-process

    def _inproc(self, case, scn, out):
        from sqlfluff.core import Linter

        cfg_enc = case.get("cfg_encoding", "autodetect")
        cfg = _cfg(cfg_enc)
        entry = case.get("entry", "persist_changes")
        out.label("entry:" + entry)
        only = case.get("only")
        scn.reset()
        result = None
        if entry == "persist_changes":
            result = Linter(config=cfg).lint_paths((scn.dir,), fix=True, apply_fixes=False, retain_files=True)
            lfiles = {os.path.basename(lf.path): lf for ldir in result.paths for lf in ldir.files}
            for f in scn.files:
                lf = lfiles.get(f["name"])
                if lf is None:
                    out.excluded = "crash(C04): file missing from results"
                    return
                if f["dirty"] and (lf.fix_string()[0] != self._fixed_text(case, f["name"])):
                    out.excluded = "fix-model-mismatch"
                    return

        def drive(res=None):
            if entry == "persist_changes":
                (res or result).persist_changes(formatter=None, fixed_file_suffix=scn.suffix)
            else:
                Linter(config=cfg).lint_paths((scn.dir,), fix=True, apply_fixes=True, fixed_file_suffix=scn.suffix,
                                              retain_files=False)

        # dry run: count the operations
        dry = Injector(None)
        err = None
        with dry.installed():
            try:
                drive()
            except BaseException as e:  # noqa
                err = e
        if err is not None:
            self._fail(out, scn, "write-failed-without-fault", f"{type(err).__name__}: {err}", "inproc", "none", "none")
            return
        probs = judge(scn, "success")
        if entry == "lint_paths" and any(k in ("success-not-fixed", "target-corrupt") for k, _ in probs):
            # distinguish a wrong fix (not C26's business) from a wrong write
            if not self._model_agrees(case, cfg, scn):
                out.excluded = "fix-model-mismatch"
                return
        for kind, detail in probs:
            self._fail(out, scn, kind, detail, "inproc", "none", "none")
        trace = list(dry.trace)
        first_write = next((i for i, (op, _) in enumerate(trace) if op == "write"), None)
        plans = []
        for i, (op, n) in enumerate(trace):
            for exc in EXC_KINDS.get(op, ["OSError", "KeyboardInterrupt"]):
                plans.append((op, n, exc, first_write is not None and i >= first_write))
        executed = unfired = 0
        nt_any = False
        for op, n, exc, nt in plans:
            if only and (only.get("op"), only.get("n"), only.get("exc")) != (op, n, exc):
                continue
            scn.reset()
            inj = Injector((op, n, exc))
            with inj.installed():
                try:
                    drive()
                except BaseException:  # noqa: the injected fault (or its consequence) propagating is expected
                    pass
            if not inj.fired:
                unfired += 1
                out.label("fault-not-fired")
                continue
            executed += 1
            out.label("fp:inproc/%s/%s" % (op, exc))
            if nt:
                out.label("nt-fault")
                nt_any = True
            for kind, detail in judge(scn, "error"):
                self._fail(out, scn, kind, detail, "inproc", op, exc,
                           only={"op": op, "n": n, "exc": exc})
        # real UnicodeEncodeError: persist a LintedFile whose encoding cannot represent its text
        if not only or only.get("op") == "encode":
            n_enc = self._encode_faults(case, cfg, scn, out, result)
            executed += n_enc
            nt_any = nt_any or n_enc > 0
        out.nontrivial = nt_any
        out.info = {"ops": dict(dry.counts), "fault_runs": executed}
        if only:
            out.label("narrowed-replay")
        elif unfired == 0 and executed >= len(plans):
            out.label("scenario-exhaustive")
        else:
            out.label("scenario-incomplete")

    def _fixed_text(self, case, name):
        for f in case["files"]:
            if f["name"] == name:
                # what sqlfluff holds in memory: raw-byte placeholders never occur in C26 scenarios
                return f["fixed"]
        raise KeyError(name)

    def _model_agrees(self, case, cfg, scn):
        from sqlfluff.core import Linter

        for f in case["files"]:
            if f["sql"] == f["fixed"]:
                continue
            lf = Linter(config=cfg).lint_string(f["sql"], fix=True)
            if lf.fix_string()[0] != f["fixed"]:
                return False
        return True

    def _encode_faults(self, case, cfg, scn, out, result):
        """One real UnicodeEncodeError per dirty file with non-ASCII text."""
        from sqlfluff.core import Linter

        n = 0
        for f in scn.files:
            text = self._fixed_text(case, f["name"])
            if not f["dirty"] or text.isascii():
                continue
            scn.reset()
            res = Linter(config=cfg).lint_paths((scn.dir,), fix=True, apply_fixes=False, retain_files=True)
            hit = False
            for ldir in res.paths:
                for i, lf in enumerate(ldir.files):
                    if os.path.basename(lf.path) == f["name"]:
                        ldir.files[i] = lf._replace(encoding="ascii")
                        hit = True
            if not hit:
                continue
            inj = Injector(None)
            raised = None
            with inj.installed():
                try:
                    res.persist_changes(formatter=None, fixed_file_suffix=scn.suffix)
                except BaseException as e:  # noqa
                    raised = e
            if not isinstance(raised, UnicodeEncodeError):
                out.label("encode-fault-not-raised")
                continue
            n += 1
            out.label("fp:inproc/write/UnicodeEncodeError(real)", "nt-fault")
            for kind, detail in judge(scn, "error"):
                self._fail(out, scn, kind, detail, "inproc", "write", "UnicodeEncodeError", only={"op": "encode"})
        return n

    # ---- (b) strace

    def _strace(self, case, scn, out, base):
        only = case.get("only")
        log = os.path.join(base, "strace.log")
        scn.reset()
        rc, stdout, text = run_strace(scn, log)
        if not text:
            raise RuntimeError("strace produced no log: rc=%s out=%s" % (rc, stdout[-300:]))
        points, other = parse_strace(text, scn.dir, scn.orig_names)
        probs = judge(scn, "success")
        if any(k in ("success-not-fixed", "target-corrupt") for k, _ in probs) and "Traceback" not in stdout:
            if not self._model_agrees(case, _cfg("autodetect"), scn):
                out.excluded = "fix-model-mismatch"
                return
        for kind, detail in probs:
            self._fail(out, scn, kind, detail, "strace", "none", "none")
        if not points:
            self._fail(out, scn, "no-write-syscalls", "dry run touched nothing in the directory: " + stdout[-200:],
                       "strace", "none", "none")
            return
        first_write = next((p["idx"] for p in points if p["sys"] in DATA_SYSCALLS), None)
        state = {"executed": 0, "misfired": 0, "nt": False, "planned": 0}

        def one(injects, how, sys_, fault, nt, after=None, only_spec=None, expect_sys=None):
            """Run with the given inject clauses, verify the fault fired on a scenario call, judge."""
            state["planned"] += 1
            scn.reset()
            rc_, so_, text_ = run_strace(scn, log, injects)
            fired = self._fired(text_, scn, how, expect_sys or sys_)
            if not fired:
                state["misfired"] += 1
                out.label("strace-misfire")
                state.setdefault("misfire_notes", []).append(
                    {"injects": list(injects), "rc": rc_, "tail": [ln[:160] for ln in text_.splitlines()[-4:]]})
                return text_
            state["executed"] += 1
            out.label("fp:strace/%s/%s%s" % (sys_, fault, "/after-rename-error" if after else ""))
            if nt:
                out.label("nt-fault")
                state["nt"] = True
            for kind, detail in judge(scn, how):
                self._fail(out, scn, kind, detail, "strace", sys_, fault, after=after, only=only_spec)
            return text_

        for p in points:
            nt = first_write is not None and p["idx"] >= first_write
            faults = [("EIO", "error")] + ([("ENOSPC", "error")] if p["sys"] in DATA_SYSCALLS else []) + [("KILL", "kill")]
            for fault, how in faults:
                spec = {"sys": p["sys"], "n": p["n"], "fault": fault}
                if only and {k: only.get(k) for k in ("sys", "n", "fault")} != spec:
                    continue
                if only and only.get("then"):
                    continue
                clause = "%s:%s:when=%d" % (p["sys"], "signal=KILL" if how == "kill" else "error=" + fault, p["n"])
                one([clause], how, p["sys"], fault, nt, only_spec=spec)
        # two-fault sequences: rename fails, shutil.move falls back to copy + unlink
        if case.get("sequences"):
            for p in points:
                if p["sys"] not in ("rename", "renameat", "renameat2"):
                    continue
                if only and not (only.get("then") and (only.get("sys"), only.get("n")) == (p["sys"], p["n"])):
                    continue
                first = "%s:error=EIO:when=%d" % (p["sys"], p["n"])
                scn.reset()
                _, _, text2 = run_strace(scn, log, [first])
                pts2, _ = parse_strace(text2, scn.dir, scn.orig_names)
                inj_idx = next((q["idx"] for q in pts2 if q["injected"]), None)
                if inj_idx is None:
                    state["misfired"] += 1
                    out.label("strace-misfire")
                    continue
                for q in pts2:
                    if q["idx"] <= inj_idx:
                        continue
                    if q["sys"] == p["sys"]:
                        state["misfired"] += 1  # cannot address two ordinals of one syscall with different faults
                        continue
                    faults2 = [("EIO", "error")] + ([("ENOSPC", "error")] if q["sys"] in DATA_SYSCALLS else []) + [
                        ("KILL", "kill")]
                    for fault, how in faults2:
                        spec = {"sys": p["sys"], "n": p["n"], "fault": "EIO",
                                "then": {"sys": q["sys"], "n": q["n"], "fault": fault}}
                        if only and only.get("then") != spec["then"]:
                            continue
                        clause = "%s:%s:when=%d" % (q["sys"], "signal=KILL" if how == "kill" else "error=" + fault, q["n"])
                        one([first, clause], how, q["sys"], fault, True, after="rename-error", only_spec=spec)
        out.nontrivial = state["nt"]
        out.info = {"syscalls": [(p["sys"], p["n"]) for p in points], "fault_runs": state["executed"]}
        if state.get("misfire_notes"):
            out.info["misfires"] = state["misfire_notes"][:3]
        if only:
            out.label("narrowed-replay")
        elif state["misfired"] == 0 and not other and state["executed"] == state["planned"]:
            out.label("scenario-exhaustive")
        else:
            out.label("scenario-incomplete")

    @staticmethod
    def _fired(text, scn, how, sys_):
        """Did the planned fault hit a call on the scenario directory?"""
        lines = text.splitlines()
        if how == "kill":
            if not any("killed by SIGKILL" in ln for ln in lines):
                return False
            # the call the process died in is the last call logged for the main process: `name(args) = ?`, or
            # `name(args <unfinished ...>` followed by `<... name resumed>) = ?` when another thread died first
            main_pid, last = None, None
            for ln in lines:
                m = _LINE.match(ln)
                if not m or "resumed>" in ln:
                    continue
                if main_pid is None:
                    main_pid = m.group(1)
                if m.group(1) == main_pid:
                    last = ln
            if last is None or not (last.rstrip().endswith("= ?") or "<unfinished ...>" in last):
                return False
            return (" " + sys_ + "(") in last and _touches(sys_, _CWD.sub("AT_FDCWD", last), scn.dir)
        for ln in lines:
            if "(INJECTED)" in ln and (" " + sys_ + "(") in ln and _touches(sys_, _CWD.sub("AT_FDCWD", ln), scn.dir):
                return True
        return False


CHECK = C26()
