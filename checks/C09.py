"""C09 Python-format and placeholder templaters render faithfully."""
import re
import string

from hypothesis import strategies as st

from vlib import gens, tpl
from vlib.framework import Check, Outcome
from vlib.sf import Crash, guard
from vlib.tpl import cached_cfg


# --------------------------------------------------------------------------- reference: python format strings

class Invalid(Exception):
    """The format string is not valid for str.format with this context."""


def py_reference(src, ctx, dotted, depth=0):
    """Rendering built field by field from string.Formatter().parse.  A field name containing '.' is looked up as a
    whole in the `sqlfluff` mapping (the documented rule); any other name goes through the standard field lookup
    (name, then [index]).  Conversion and format spec are the ones written in the source; a nested spec is expanded
    first.  Raises Invalid when str.format itself could not render it with this context."""
    fmt = string.Formatter()
    out = []
    try:
        parsed = list(fmt.parse(src))
    except ValueError as e:
        raise Invalid("parse: %s" % e)
    for lit, field, spec, conv in parsed:
        out.append(lit)
        if field is None:
            continue
        if field == "" or field.isdigit() or re.match(r"\d+[.\[]", field):
            raise Invalid("positional field %r but no positional arguments" % field)
        if "." in field:
            if dotted is None or field not in dotted:
                raise Invalid("dotted name %r not in the sqlfluff mapping" % field)
            val = dotted[field]
        else:
            try:
                val, _ = fmt.get_field(field, (), ctx)
            except (KeyError, IndexError, AttributeError, TypeError, ValueError) as e:
                raise Invalid("lookup %r: %r" % (field, e))
        if conv is not None:
            if conv not in "rsa" or conv == "":
                raise Invalid("conversion %r" % conv)
            val = {"r": repr, "s": str, "a": ascii}[conv](val)
        if spec and ("{" in spec or "}" in spec):
            if depth >= 1:
                raise Invalid("nesting too deep")
            spec = py_reference(spec, ctx, dotted, depth + 1)
        try:
            out.append(format(val, spec or ""))
        except (ValueError, TypeError) as e:
            raise Invalid("format(%r, %r): %s" % (val, spec, e))
    return "".join(out)


def py_construct(src):
    """Coarse construct class of a python format string (for signatures)."""
    try:
        fields = [p for p in string.Formatter().parse(src)]
    except ValueError:
        return "unparsable"
    esc = "{{" in src or "}}" in src
    dotted = [p for p in fields if p[1] and "." in p[1]]
    lit_dot = any("." in p[0] for p in fields)
    if re.search(r"\{[^{}]*:\}", src):
        return "empty-format-spec"
    if any(p[3] for p in dotted):
        return "dotted-name+conversion"
    if any(p[2] and re.search(r"\s", p[2]) for p in dotted):
        return "dotted-name+spec-with-space"
    if esc and (dotted or lit_dot):
        return "dot+escaped-brace"
    if dotted:
        return "dotted-name"
    if esc:
        return "escaped-brace"
    if any(p[2] for p in fields if p[1]):
        return "format-spec"
    if any(p[3] for p in fields if p[1]):
        return "conversion"
    return "plain-fields" if any(p[1] for p in fields) else "literal"


def dot_regex_misfires(src, ctx, dotted, want):
    """Classification only (never the verdict): would the documented rewrite {foo.bar} -> {sqlfluff[foo.bar]}, done
    with the templater's regular expression over the raw string instead of field by field, render something else
    than the reference (or nothing)?  True names the root cause 'dot-notation regex' in the signature."""
    rewritten = re.sub(r"{([^:}]*\.[^:}]*)(:\S*)?}", r"{sqlfluff[\1]\2}", src)
    try:
        return rewritten.format(**dict(ctx, sqlfluff=dict(dotted or {}))) != want
    except Exception:
        return True


def python_cause(src, ctx, dotted, want, got=None, crash=None, skip_msg=None):
    if dot_regex_misfires(src, ctx, dotted, want):
        return "dot-notation-regex"
    if crash is not None and crash.type == "AssertionError" and re.search(r"\{[^{}]*:\}", src):
        return "empty-format-spec"
    if skip_msg is not None:
        if "non-contiguous" in skip_msg or "Length of templated file mismatch" in skip_msg or "not started at index 0" in skip_msg:
            return "slicer-inconsistent-slices"
        return "skip-other"
    if got is not None and got != want and got in want:
        return "slicer-truncates-rendering"
    return "other"


# --------------------------------------------------------------------------- reference: placeholders

def ph_reference(src, style, ctx):
    """Source with every non-overlapping left-to-right match of the style's pattern replaced by str(value) or by the
    parameter name; optional quotes kept; positional styles numbered from 1.  'Matched' is KNOWN_STYLES[style]
    (see DESIGN); the substitution itself is done here with regex.sub and a callback."""
    from sqlfluff.core.templaters.placeholder import KNOWN_STYLES

    rx = KNOWN_STYLES[style]
    counter = [0]

    def repl(m):
        gd = m.groupdict()
        if "param_name" in gd:
            name = gd["param_name"]
        else:
            counter[0] += 1
            name = str(counter[0])
        val = str(ctx[name]) if name in ctx else name
        q = gd.get("quotation") or ""
        return q + val + q

    return rx.sub(repl, src), counter[0]


# the documented example of every style with a hand-written expected rendering (what notices a changed pattern)
DOC_VALUES = {"my_name": "john", "column": "col", "table": "tbl", "2": "two", "3": "three", "1": "one", "s": "ess",
              "ENV": "prod", "flyway:database": "db"}
DOCUMENTED = [
    ("colon", "WHERE bla = :my_name", "WHERE bla = john", "WHERE bla = my_name"),
    ("colon", "SELECT a::int, x:my_name, \\:my_name, :my_name", "SELECT a::int, x:my_name, \\:my_name, john",
     "SELECT a::int, x:my_name, \\:my_name, my_name"),
    ("colon_nospaces", "WHERE bla = table:my_name", "WHERE bla = tablejohn", "WHERE bla = tablemy_name"),
    ("colon_nospaces", "a::int", "a::int", "a::int"),
    ("colon_optional_quotes", "SELECT :\"column\" FROM :table WHERE bla = :'my_name'",
     "SELECT \"col\" FROM tbl WHERE bla = 'john'", "SELECT \"column\" FROM table WHERE bla = 'my_name'"),
    ("numeric_colon", "WHERE bla = :2", "WHERE bla = two", "WHERE bla = 2"),
    ("numeric_colon", "WHERE a:2 = b::3 AND c = :3", "WHERE a:2 = b::3 AND c = three", "WHERE a:2 = b::3 AND c = 3"),
    ("pyformat", "WHERE bla = %(my_name)s", "WHERE bla = john", "WHERE bla = my_name"),
    ("dollar", "WHERE bla = $my_name or WHERE bla = ${my_name}", "WHERE bla = john or WHERE bla = john",
     "WHERE bla = my_name or WHERE bla = my_name"),
    ("dollar_surround", "WHERE bla = $my_name$", "WHERE bla = john", "WHERE bla = my_name"),
    ("flyway_var", "USE ${flyway:database}.schema_name;", "USE db.schema_name;", "USE flyway:database.schema_name;"),
    ("question_mark", "WHERE bla = ? AND b = ?", "WHERE bla = one AND b = two", "WHERE bla = 1 AND b = 2"),
    ("numeric_dollar", "WHERE bla = $3 or WHERE bla = ${3}", "WHERE bla = three or WHERE bla = three",
     "WHERE bla = 3 or WHERE bla = 3"),
    ("percent", "WHERE bla = %s AND b = %s", "WHERE bla = one AND b = two", "WHERE bla = 1 AND b = 2"),
    ("ampersand", "WHERE bla = &s or WHERE bla = &{s} or USE DATABASE MARK_&{ENV}",
     "WHERE bla = ess or WHERE bla = ess or USE DATABASE MARK_prod", "WHERE bla = s or WHERE bla = s or USE DATABASE MARK_ENV"),
]

ADJACENT = re.compile(r"[\w:\\][:$%&?]|[:$%&?}\w][:$%&?]")


class C09(Check):
    id = "C09"
    level = "exploration"
    rule = (
        "Domain: (python) generated format strings over a context of str/int/float/list values and a `sqlfluff` "
        "mapping for dotted names: literals (also with dots), escaped braces, fields with conversions, format specs, "
        "nested specs, [index], dotted names; 1/6 with an invalid piece ({ } {} {0} {a!x} {missing} ...); profile "
        "'clean' never combines an escaped brace with a dot (known finding F-C09-a) and has no empty spec (F-C09-b). "
        "(placeholder) SQL fragments with parameters of every KNOWN_STYLES style incl. near misses, adjacent to word "
        "characters, colons, backslashes; context with no / some / all values (str, int, empty, containing "
        "markers); the documented example of every style with a hand-written expected rendering. Oracle: python: a "
        "string valid for str.format must render and equal a field-by-field reference (Formatter.parse, dotted names "
        "from the sqlfluff mapping, written conversion/spec); an invalid one must not render silently (exceptions are "
        "C04's). placeholder: rendering == regex.sub over the style's pattern with str(value) or the name, quotes "
        "kept, positional numbering from 1; pinned == hand-written text. Non-trivial: python: escaped brace together "
        "with a field, dotted name, format spec or conversion; placeholder: a parameter adjacent to a word "
        "character / colon / backslash / another parameter; distinct by SHA-1."
    )
    assumptions = [
        "python context values are ones that python.infer_type (ast.literal_eval) leaves unchanged.",
        "Which text counts as a parameter is taken from KNOWN_STYLES[style]; the substitution and the documented "
        "examples (hand-written expectations) are independent of it.",
        "Parameter names param_style / test_value (the templater's own config keys) are not generated.",
    ]

    def selftest(self):
        ctx, dot = dict(tpl.PY_CTX), dict(tpl.PY_DOT)
        for s in ["SELECT {a} FROM {tbl}", "{{}} {b:>4}|{a!r:>10}|{a:{b}}|{foo.bar:>12}|{lst[0]}|{f:.1f}", "{{ 1.5 {a.b} }}", "{a:}"]:
            want = s.replace("{foo.bar", "{sqlfluff[foo.bar]").replace("{a.b", "{sqlfluff[a.b]").format(sqlfluff=dot, **ctx)
            assert py_reference(s, ctx, dot) == want, (s, py_reference(s, ctx, dot), want)
        for s in ["{", "}", "{}", "{0}", "{a!x}", "{missing}", "{b:zz}", "{no.such}", "{lst[5]}", "{a:>{missing}}"]:
            try:
                py_reference(s, ctx, dot)
            except Invalid:
                continue
            raise AssertionError("reference accepts invalid " + s)
        assert py_construct("{{ {a.b}") == "dot+escaped-brace" and py_construct("{a:}") == "empty-format-spec"
        assert ph_reference("a = ? and b = ?", "question_mark", {"2": "x"}) == ("a = 1 and b = x", 2)
        assert ph_reference(":\"c\" :'d' :e", "colon_optional_quotes", {"c": 1}) == ("\"1\" 'd' e", 0)
        assert ph_reference("x:a \\:a :a", "colon", {"a": "v"})[0] == "x:a \\:a v"

    # ------------------------------------------------------------------ cases
    def pinned(self, tier):
        for style, src, with_vals, without in DOCUMENTED:
            yield {"templater": "placeholder", "sql": src, "param_style": style, "context": dict(DOC_VALUES),
                   "expect": with_vals, "origin": "documented"}
            yield {"templater": "placeholder", "sql": src, "param_style": style, "context": {}, "expect": without,
                   "origin": "documented"}
        for s in ["", "SELECT 1", "{a}", "{{", "}}", "{{{a}}}", "{foo.bar}", "{a!r:>10}", "{a:{b}}", "{lst[0]}{lst[1]}", "{br}",
                  "{e}", "{a}{a}{a}", "x{{y}}z{b:04d}", "{", "{}", "{0}", "{missing}", "{a!x}", "{b:zz}"]:
            yield {"templater": "python", "sql": s, "context": dict(tpl.PY_CTX), "dotted": dict(tpl.PY_DOT), "origin": "pinned"}
        for style in sorted(tpl.PH_PIECES):
            for p in tpl.PH_PIECES[style]:
                for pre in ("", "x", ":", "\\", " "):
                    yield {"templater": "placeholder", "sql": "a " + pre + p + "b " + p, "param_style": style,
                           "context": dict(tpl.PH_VALUES), "origin": "pinned"}

    def strategy(self, tier):
        return st.one_of(tpl.pyfmt_rich_case(), tpl.pyfmt_rich_case(), gens.pyfmt_case(allow_invalid=True),
                         tpl.placeholder_rich_case(), tpl.placeholder_rich_case(), gens.placeholder_case())

    def budget_s(self, tier):
        # safety net only (the case counts are the bound); generous because the box may be shared
        return 420.0 if tier == "quick" else 1700.0

    def examples(self, tier):
        return 650 if tier == "quick" else 60000

    # ------------------------------------------------------------------ one case
    def run_case(self, case):
        from sqlfluff.core import Linter

        templater = case["templater"]
        sql = case["sql"]
        out = Outcome(labels=["templater:" + templater])
        try:
            cfg = cached_cfg(templater, context=case.get("context"), param_style=case.get("param_style"),
                             dotted=case.get("dotted"), render_variant_limit=1)
            linter = Linter(config=cfg)
        except Exception:
            out.excluded = "config-rejected"
            return out
        src = Linter._normalise_newlines(sql)
        r = guard(linter.render_string, sql, "t.sql", cfg, "utf8")
        if templater == "python":
            return self.judge_python(case, src, r, out)
        return self.judge_placeholder(case, src, r, out)

    def judge_python(self, case, src, r, out):
        ctx, dotted = case.get("context") or {}, case.get("dotted")
        construct = py_construct(src)
        out.label("construct:" + construct)
        try:
            want = py_reference(src, ctx, dotted)
            valid = True
        except Invalid as e:
            want, valid, why = None, False, str(e)
        if not valid:
            out.label("invalid-format-string")
            if isinstance(r, Crash):
                out.excluded = "crash(C04):" + r.type  # IndexError on {} / {0}, ValueError on a lone brace: F-C04-a
                return out
            if r.templated_variants and not r.templater_violations:
                out.label("invalid-but-rendered")
                out.fail(f"{why}; but sqlfluff rendered {r.templated_variants[0].templated_str[:80]!r} without a TMP violation",
                         templater="python", clause="invalid-string-rendered", construct=construct)
            elif not r.templated_variants and not r.templater_violations:
                out.fail(f"{why}: no rendering and no TMP violation", templater="python", clause="invalid-string-silent",
                         construct=construct)
            out.nontrivial = True
            return out
        # valid for str.format with this context: must render, and render this
        fields = [p for p in string.Formatter().parse(src) if p[1] is not None]
        out.nontrivial = bool(fields) and (("{{" in src or "}}" in src) or construct not in ("plain-fields", "literal"))
        if isinstance(r, Crash):
            return out.fail(f"valid format string raises {r!r}", templater="python", clause="valid-string-crashes",
                            cause=python_cause(src, ctx, dotted, want, crash=r), exc=r.type, frame=r.frame)
        if not r.templated_variants:
            tmp = [v.desc()[:140] for v in r.templater_violations]
            if tmp:
                return out.fail(f"valid format string (reference renders {want[:60]!r}) is refused: {tmp[:1]}",
                                templater="python", clause="valid-string-does-not-render",
                                cause=python_cause(src, ctx, dotted, want))
            # neither a rendering nor a violation: the linter swallowed a SQLFluffSkipFile; ask the templater why
            direct = guard(lambda: r.config.get("templater_obj").process(in_str=src, fname="t.sql", config=r.config))
            msg = direct.msg if isinstance(direct, Crash) else "no exception on direct call"
            return out.fail(f"valid format string (reference renders {want[:60]!r}) is skipped: {msg[:160]}",
                            templater="python", clause="valid-string-skipped",
                            cause=python_cause(src, ctx, dotted, want, skip_msg=msg))
        got = r.templated_variants[0].templated_str
        if got != want:
            out.fail(f"rendered {got[:100]!r}, str.format reference {want[:100]!r}", templater="python",
                     clause="render-differs", cause=python_cause(src, ctx, dotted, want, got=got))
        return out

    def judge_placeholder(self, case, src, r, out):
        style = case.get("param_style")
        ctx = case.get("context") or {}
        out.label("style:" + str(style))
        if isinstance(r, Crash):
            # every string is a valid input of the placeholder templater: an exception is a failure to render
            return out.fail(f"placeholder templater raises {r!r}", templater="placeholder", clause="crash", construct=str(style),
                            exc=r.type, frame=r.frame)
        if not r.templated_variants:
            return out.fail(f"no rendering; violations {[v.desc()[:100] for v in r.templater_violations][:1]}",
                            templater="placeholder", clause="no-rendering", construct=str(style))
        got = r.templated_variants[0].templated_str
        want, n_pos = ph_reference(src, style, ctx)
        if got != want:
            out.fail(f"rendered {got[:100]!r}, reference substitution {want[:100]!r}", templater="placeholder",
                     clause="render-differs", construct=str(style))
        if "expect" in case:
            out.label("documented-example")
            if got != case["expect"]:
                out.fail(f"rendered {got[:100]!r}, documented behaviour {case['expect'][:100]!r}", templater="placeholder",
                         clause="documented-example", construct=str(style))
        if ctx:
            out.label("with-values")
        if got != src:
            out.label("substituted")
            out.nontrivial = bool(ADJACENT.search(src))
            if out.nontrivial:
                out.label("adjacent-parameter")
        return out


CHECK = C09()
