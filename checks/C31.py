"""C31 Offset-to-line/column conversion is exact."""
import itertools

from hypothesis import strategies as st

from vlib.framework import Check, Outcome


def line_col(text: str, off: int):
    """Reference, written from the statement."""
    return text.count("\n", 0, off) + 1, off - (text.rfind("\n", 0, off) + 1) + 1


def _tf(src, tmpl):
    from sqlfluff.core.templaters.base import RawFileSlice, TemplatedFile, TemplatedFileSlice

    if tmpl is None:
        return TemplatedFile.from_string(src)
    return TemplatedFile(
        source_str=src,
        fname="<x>",
        templated_str=tmpl,
        sliced_file=[TemplatedFileSlice("templated", slice(0, len(src)), slice(0, len(tmpl)))],
        raw_sliced=[RawFileSlice(src, "templated", 0)],
    )


class C31(Check):
    id = "C31"
    thorough_pinned = True  # full thorough enumeration observed quiet on the unchanged tree
    level = "exploration"
    rule = (
        "pinned: every string over {a, LF, CR} up to length 8 (quick) / 11 (thorough) as source with a "
        "rotated copy as rendered text, every offset 0..len on both sides (exhaustive for that scope, "
        "independent of the seed); generated: Hypothesis text (full Unicode plus newline-heavy alphabet, "
        "<=2000 chars) with different source and rendered strings. Oracle: line = 1 + newlines before "
        "offset, column = offset - index after last newline + 1, evaluated through "
        "TemplatedFile.get_line_pos_of_char_pos(source=True/False), PositionMarker.line_no/line_pos/"
        "templated_position and a chain of infer_next_position over a generated split of the text. "
        "Non-trivial: text has a newline and at least 2 characters; distinct = distinct (source, rendered, cuts)."
    )
    assumptions = ["only LF counts as a line break (the statement says 'newlines'); CR is an ordinary character"]

    def selftest(self):
        assert line_col("ab\ncd", 0) == (1, 1)
        assert line_col("ab\ncd", 2) == (1, 3)
        assert line_col("ab\ncd", 3) == (2, 1)
        assert line_col("ab\ncd", 5) == (2, 3)
        assert line_col("\n\n", 2) == (3, 1)

    def pinned(self, tier):
        maxlen = 8 if tier == "quick" else 11
        for n in range(0, maxlen + 1):
            for tup in itertools.product("a\n\r", repeat=n):
                s = "".join(tup)
                yield {"src": s, "tmpl": s[n // 2:] + s[: n // 2] if n else "", "cuts": [n // 3, n // 2]}

    def strategy(self, tier):
        alpha = st.one_of(
            st.text(alphabet=st.sampled_from("ab \n\n\r\t"), max_size=60),
            st.text(max_size=200),
            st.lists(st.text(alphabet=st.characters(blacklist_categories=("Cs",)), max_size=80), max_size=25).map(
                "\n".join
            ),
        )
        return st.fixed_dictionaries(
            {"src": alpha, "tmpl": st.one_of(st.none(), alpha), "cuts": st.lists(st.integers(0, 2000), max_size=6)}
        )

    def examples(self, tier):
        return 400 if tier == "quick" else 20000

    def run_case(self, case):
        from sqlfluff.core.parser.markers import PositionMarker

        out = Outcome()
        src, tmpl = case["src"], case.get("tmpl")
        tf = _tf(src, tmpl)
        rendered = src if tmpl is None else tmpl
        out.nontrivial = "\n" in src + rendered and len(src) >= 2
        if tmpl is not None and tmpl != src:
            out.label("source!=rendered")
        if "\r" in src:
            out.label("has-CR")
        for is_source, text in ((True, src), (False, rendered)):
            for off in range(len(text) + 1):
                got = tf.get_line_pos_of_char_pos(off, source=is_source)
                exp = line_col(text, off)
                if tuple(got) != exp:
                    return out.fail(
                        f"offset {off} in {text!r}: got {got} expected {exp}",
                        clause="get_line_pos_of_char_pos", side="source" if is_source else "rendered",
                    )
        # PositionMarker accessors (sampled offsets to keep this linear)
        step = max(1, len(src) // 40)
        for off in range(0, len(src) + 1, step):
            toff = min(off, len(rendered))
            pm = PositionMarker.from_point(off, toff, tf)
            if (pm.line_no, pm.line_pos) != line_col(src, off) or tuple(pm.source_position()) != line_col(src, off):
                return out.fail(f"PositionMarker source pos at {off} in {src!r}", clause="marker-source")
            if tuple(pm.templated_position()) != line_col(rendered, toff):
                return out.fail(f"PositionMarker templated pos at {toff} in {rendered!r}", clause="marker-templated")
        # chained infer_next_position over a split of the rendered text
        cuts = sorted({min(c, len(rendered)) for c in case.get("cuts", [])} | {0, len(rendered)})
        ln, lp = 1, 1
        for a, b in zip(cuts, cuts[1:]):
            ln, lp = PositionMarker.infer_next_position(rendered[a:b], ln, lp)
            if (ln, lp) != line_col(rendered, b):
                return out.fail(
                    f"infer_next_position chain at {b} in {rendered!r}: {(ln, lp)} != {line_col(rendered, b)}",
                    clause="infer_next_position",
                )
        # working_loc_after on a marker
        pm0 = PositionMarker.from_point(0, 0, tf)
        if rendered and tuple(pm0.working_loc_after(rendered)) != line_col(rendered, len(rendered)):
            return out.fail("working_loc_after", clause="working_loc_after")
        return out

    def finish(self, tier, merged):
        return {"exhaustive": True, "exhaustive_scope": "strings over {a,LF,CR} up to length %d, all offsets"
                % (8 if tier == "quick" else 11)}


CHECK = C31()
