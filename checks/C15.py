"""C15 Capitalisation fixes change only letter case."""
from hypothesis import strategies as st

from vlib import gens, fixlib
from vlib.framework import Check, Outcome
from vlib.sf import Crash

POLICIES = ["consistent", "upper", "lower", "capitalise"]
EXT_POLICIES = POLICIES + ["pascal", "snake", "camel"]
UIP = ["all", "aliases", "column_aliases", "table_aliases"]
RULE_OF = {"CP01": "kw", "CP02": "ident", "CP03": "func", "CP04": "lit", "CP05": "type"}


def rule_configs(case):
    p = case.get("policies", {})
    ident = {"extended_capitalisation_policy": p.get("ident", "consistent"),
             "unquoted_identifiers_policy": p.get("uip", "all")}
    kw = {"capitalisation_policy": p.get("kw", "consistent")}
    if p.get("ignore_words"):
        ident["ignore_words"] = p["ignore_words"]
        kw["ignore_words"] = p["ignore_words"]
    return {
        "capitalisation.keywords": kw,
        "capitalisation.identifiers": ident,
        "capitalisation.functions": {"extended_capitalisation_policy": p.get("func", "consistent")},
        "capitalisation.literals": {"capitalisation_policy": p.get("lit", "consistent")},
        "capitalisation.types": {"extended_capitalisation_policy": p.get("type", "consistent")},
    }


@st.composite
def policies(draw):
    p = {"kw": draw(st.sampled_from(POLICIES)), "lit": draw(st.sampled_from(POLICIES)),
         "ident": draw(st.sampled_from(EXT_POLICIES)), "func": draw(st.sampled_from(EXT_POLICIES)),
         "type": draw(st.sampled_from(EXT_POLICIES)), "uip": draw(st.sampled_from(UIP + ["all", "all"]))}
    if draw(st.integers(0, 4)) == 0:
        p["ignore_words"] = draw(st.sampled_from(["select,a", "from,id,name", "t1,count"]))
    return p


PINNED_POLICIES = [{"kw": k, "lit": k, "ident": e, "func": e, "type": e, "uip": "all"}
                   for k, e in [("upper", "lower"), ("lower", "upper"), ("capitalise", "capitalise"),
                                ("consistent", "consistent"), ("upper", "pascal"), ("lower", "camel"),
                                ("upper", "snake")]]


def same_but_case(a, b):
    return a.casefold() == b.casefold() or a.upper() == b.upper() or a.lower() == b.lower()


def is_unquoted_word(tok):
    """Tokens a capitalisation fix may re-case: code tokens that are not quoted (the statement protects quoted
    identifiers, string literals, comments and whitespace).  Besides `word` some dialects lex unquoted identifiers
    under other names (snowflake METADATA$FILENAME is an `inline_dollar_sign`); anything whose lexer type says
    `quote` is protected."""
    return tok[1] == "code" and "quote" not in tok[2]


def compare(before, after):
    """First disagreement: None or (kind, lexer type, detail)."""
    if len(before) != len(after):
        i = 0
        while i < min(len(before), len(after)) and before[i][0] == after[i][0]:
            i += 1
        return ("token-count", before[i][2] if i < len(before) else "-",
                f"{len(before)} tokens -> {len(after)}; first difference {before[i:i + 3]} -> {after[i:i + 3]}")
    for x, y in zip(before, after):
        if x[0] == y[0]:
            continue
        if not is_unquoted_word(x):
            return ("protected-changed", x[2], f"{x[2]} token {x[0]!r} -> {y[0]!r}")
        if same_but_case(x[0], y[0]):
            continue
        if same_but_case(x[0].replace("_", ""), y[0].replace("_", "")) and len(y[0]) > len(x[0]):
            return ("underscore-insert", x[2], f"{x[0]!r} -> {y[0]!r}")
        return ("non-case-change", x[2], f"{x[0]!r} -> {y[0]!r}")
    return None


class C15(Check):
    id = "C15"
    level = "exploration"
    rule = (
        "Domain: rules=capitalisation (CP01-CP05) with a policy for each rule: pinned slice of the fixture corpus of "
        "every dialect x 7 fixed policy combinations (each of upper/lower/capitalise/consistent/pascal/camel/snake "
        "occurs); generated: fixtures (half mutated, parsable or not) and G-sql queries (quoted identifiers and "
        "string literals enabled) x Hypothesis-drawn policies (capitalisation_policy for keywords and literals, "
        "extended_capitalisation_policy for identifiers, functions and types, unquoted_identifiers_policy, "
        "ignore_words). Oracle: input and output lexed with the dialect lexer; same number of tokens; every token "
        "that is not a bare word (whitespace, newline, comment, quoted identifier/string, number, symbol ...) is "
        "byte-identical; bare words are equal up to letter case. Failure kinds: token-count, protected-changed, "
        "underscore-insert, non-case-change. Non-trivial: the fix changed the file and the file contains a quoted "
        "token or a comment."
    )
    assumptions = ["'unquoted keywords, identifiers, function names, type names, boolean/null literals' = tokens the "
                   "dialect lexer types as `word`"]

    def selftest(self):
        w = lambda r: (r, "code", "word")
        q = lambda r: (r, "code", "double_quote")
        assert compare([w("select"), q('"a"')], [w("SELECT"), q('"a"')]) is None
        assert compare([w("select"), q('"a"')], [w("SELECT"), q('"A"')])[0] == "protected-changed"
        assert compare([w("fooBar")], [w("foo_bar")])[0] == "underscore-insert"
        assert compare([w("foo")], [w("bar")])[0] == "non-case-change"
        assert compare([w("foo")], [w("foo"), w("x")])[0] == "token-count"
        assert compare([("-- select", "comment", "inline_comment")], [("-- SELECT", "comment", "inline_comment")])[0] \
            == "protected-changed"

    def pinned(self, tier):
        for i, pol in enumerate(PINNED_POLICIES):
            per = 2 if tier == "quick" else 8
            for c in fixlib.pinned_slice(tier, ["capitalisation"], per, per, offset=5 + i):
                c["policies"] = pol
                yield c

        # every fixture of every dialect once, alternating all-upper / all-lower policies: a quoted literal or
        # identifier that one dialect's grammar hangs directly under a re-cased node shows up in a single fixture
        for d in gens.dialects():
            for j, r in enumerate(gens.corpus(d, 1500)):
                # the policy opposite to the file's prevailing letter case, so that as much as possible gets re-cased
                k = "upper" if sum(ch.islower() for ch in r["sql"]) >= sum(ch.isupper() for ch in r["sql"]) else "lower"
                yield {"dialect": d, "sql": r["sql"], "origin": r["name"], "rules": "capitalisation",
                       "policies": {"kw": k, "lit": k, "ident": k, "func": k, "type": k, "uip": "all"}}

    def strategy(self, tier):
        base = fixlib.fix_case(tier=tier, rules=st.just("capitalisation"),
                               gsql_features={"quoted": True, "comments": True})
        return st.tuples(base, policies()).map(lambda t: dict(t[0], policies=t[1]))

    def examples(self, tier):
        return 15 if tier == "quick" else 2500

    def budget_s(self, tier):
        return 400.0 if tier == "quick" else 1700.0

    def judge(self, case):
        c = dict(case)
        c["rule_configs"] = rule_configs(case)
        run = fixlib.FixRun(c)
        if run.excluded or not run.changed:
            return run, None, None
        before = fixlib.relex(run.sql, run.config)
        after = run.relexed()
        if isinstance(before, Crash) or isinstance(after, Crash):
            run.excluded = "crash(C04):lexer"
            return run, None, None
        return run, compare(before[0], after[0]), before[0]

    def run_case(self, case):
        out = Outcome(labels=fixlib.base_labels(case))
        pol = case.get("policies", {})
        for k in ("kw", "ident", "func", "type", "lit"):
            out.label(f"policy:{k}={pol.get(k, 'consistent')}")
        run, diff, before = self.judge(case)
        if run.excluded:
            out.excluded = run.excluded
            return out
        if not run.changed:
            out.label("fix-unchanged")
            return out
        out.label("fix-changed")
        if run.pre_structural:
            out.label("input-unparsable")
        if any(t[1] == "comment" or "quote" in t[2] for t in before):
            out.nontrivial = True
            out.label("has-quoted-or-comment")
        if diff is None:
            return out
        kind, typ, detail = diff

        def still(c):
            _, d, _ = self.judge(c)
            return d is not None and d[0] == kind

        rule = fixlib.attribute(case, run.fixing_rules(), still)
        policy = "+".join(pol.get(RULE_OF[r], "consistent") if r in RULE_OF else "?" for r in rule.split("+")) \
            if not rule.startswith("combo") else "?"
        out.fail(detail + f" | fixed={run.fixed[:120]!r}", kind=kind, type=typ, rule=rule, policy=policy)
        return out


CHECK = C15()
