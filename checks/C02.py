"""C02 Parsing is lossless: tree leaves are exactly the lexed tokens."""
from vlib import lexparse
from vlib.framework import Check, Outcome
from vlib.sf import Crash, guard, nonmeta
from vlib.tmap import slicemap_problems


FATAL_OK = ("Couldn't find closing bracket", "Found unexpected end bracket", "Maximum parse depth exceeded",
            "Maximum parse node count exceeded")


def outermost_unparsables(seg):
    """Independent walk: unparsable nodes that are not inside another unparsable."""
    out = []
    stack = [seg]
    while stack:
        s = stack.pop()
        if s.is_type("unparsable"):
            out.append(s)
            continue
        stack.extend(reversed(s.segments))
    return out


def enclosing_type(tree, target):
    path = tree.path_to(target)
    for step in reversed(path):
        if not step.segment.is_type("unparsable"):
            return step.segment.get_type()
    return "file"


class C02(Check):
    id = "C02"
    level = "exploration"
    rule = (
        "Domain: as C01 (fixtures of every dialect unmutated/mutated, arbitrary text, generated jinja/python/"
        "placeholder templates); each rendering variant goes through Linter.parse_rendered. Oracle: non-meta leaves of "
        "the tree == non-meta lexer tokens (same count, order, raw text, rendered and source slices); tree.raw == "
        "rendered text; outermost unparsable nodes <-> PRS violations one-to-one at the same position; no tree => a "
        "PRS/LXR violation exists. Non-trivial: tree has an unparsable node, or the input was mutated, or templated "
        "with non-literal slices; distinct by SHA-1 of the case."
    )

    def pinned(self, tier):
        return lexparse.pinned_cases(tier, 3, 25)

    def strategy(self, tier):
        return lexparse.domain(tier, adversarial_jinja=True)

    def examples(self, tier):
        return 170 if tier == "quick" else 6000

    def run_case(self, case):
        from sqlfluff.core import Linter

        out = Outcome(labels=lexparse.base_labels(case))
        obs = lexparse.Observation(case, parse=True)
        templater = case.get("templater", "raw")
        if obs.crash is not None:
            out.excluded = "config-rejected" if getattr(obs, "config_error", False) else "crash(C04):" + obs.crash.type
            return out
        if not obs.parsed.parsed_variants:
            out.excluded = "no-rendering(TMP)"
            return out
        if case.get("mutated"):
            out.nontrivial = True
        for vi, pv in enumerate(obs.parsed.parsed_variants):
            tf = pv.templated_file
            var = "primary" if vi == 0 else "alternate"
            if slicemap_problems(tf):
                out.label("excluded-variant:C07")
                continue
            if templater != "raw" and any(s.slice_type != "literal" for s in tf.sliced_file):
                out.nontrivial = True
            lexed = guard(Linter._lex_templated_file, tf, obs.config)
            if isinstance(lexed, Crash) or lexed[0] is None:
                out.label("lex-failed")
                continue
            toks = lexed[0]
            prs = list(pv.parsing_violations)
            if pv.tree is None:
                out.label("no-tree")
                if not prs and not pv.lexing_violations:
                    out.fail("no tree and no PRS/LXR violation", clause="notree-silent", variant=var)
                # The only documented reasons for refusing to build a tree are bracket mismatches and the
                # depth/node limits.  Anything else (in particular the parser's own "Parse completeness check
                # fail", i.e. it noticed that it lost or duplicated text) is discarded code.
                for e in prs:
                    d = e.desc() or ""
                    if not any(d.startswith(ok) for ok in FATAL_OK):
                        out.fail(f"no tree: {d[:160]}", clause="notree-unexpected-prs", variant=var,
                                 cause="completeness-check" if "completeness check" in d else "other")
                continue
            tree = pv.tree
            if tree.raw != tf.templated_str:
                out.fail(f"tree.raw {tree.raw[:60]!r} != rendered {tf.templated_str[:60]!r}", clause="tree-raw", variant=var)
                continue
            leaves = nonmeta(tree.raw_segments)
            ltoks = nonmeta(toks)
            if len(leaves) != len(ltoks):
                out.fail(f"{len(leaves)} leaves vs {len(ltoks)} tokens", clause="leaf-count", variant=var)
                continue
            for a, b in zip(leaves, ltoks):
                pa, pb = a.pos_marker, b.pos_marker
                if a.raw != b.raw:
                    out.fail(f"leaf {a.raw!r} vs token {b.raw!r}", clause="leaf-text", variant=var)
                    break
                if (pa.templated_slice, pa.source_slice) != (pb.templated_slice, pb.source_slice):
                    out.fail(f"leaf {a.raw!r} at {pa.templated_slice}/{pa.source_slice} vs token at "
                             f"{pb.templated_slice}/{pb.source_slice}", clause="leaf-position", variant=var)
                    break
            # unparsables <-> PRS
            unp = outermost_unparsables(tree)
            if unp:
                out.nontrivial = True
                out.label("has-unparsable")
            limit_errs = [e for e in prs if e.segment is None or not e.segment.is_type("unparsable")]
            unp_errs = [e for e in prs if e.segment is not None and e.segment.is_type("unparsable")]
            want = sorted((u.pos_marker.source_position(), u.raw) for u in unp)
            got = sorted((e.segment.pos_marker.source_position(), e.segment.raw) for e in unp_errs)
            if want != got:
                encl = enclosing_type(tree, unp[0]) if unp else "-"
                out.fail(f"unparsable nodes {want[:3]} vs PRS violations {got[:3]}", clause="unparsable-prs", variant=var,
                         enclosing=encl)
            for e in unp_errs:
                if (e.line_no, e.line_pos) != tuple(e.segment.pos_marker.source_position()):
                    out.fail(f"PRS at {(e.line_no, e.line_pos)} but node at {e.segment.pos_marker.source_position()}",
                             clause="prs-position", variant=var)
                    break
            if limit_errs:
                out.label("limit-or-other-prs")
        return out


CHECK = C02()
