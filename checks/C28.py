"""C28 Parse output is a faithful serialisation of the tree."""
import ast
import json
import os
import re
import shutil
import subprocess
import sys
import tempfile

from hypothesis import strategies as st

from vlib import gens, lexparse
from vlib.framework import Check, Outcome
from vlib.sf import Crash, guard

POS_KEYS = {"start_line_no", "start_line_pos", "start_file_pos", "end_line_no", "end_line_pos", "end_file_pos"}


def nodes_from_record(rec):
    """Record (dict) -> list of (type, value) nodes in order; value = str leaf | list of nodes."""
    out = []
    for k, v in rec.items():
        if k in POS_KEYS:
            continue
        if isinstance(v, str):
            out.append((k, v))
        elif v is None:
            out.append((k, []))
        elif isinstance(v, list):
            kids = []
            for e in v:
                kids.extend(nodes_from_record(e))
            out.append((k, kids))
        elif isinstance(v, dict):
            out.append((k, nodes_from_record(v)))
        else:
            raise ValueError("unexpected value in record: %r" % (v,))
    return out


def node_from_tree(seg, code_only, include_meta):
    """Independent walk of the tree giving the expected (type, value) nesting."""
    if not seg.segments:
        # template placeholders are documented to show their *source* text when metas are included
        if seg.is_meta and seg.is_type("placeholder") and hasattr(seg, "source_str"):
            return (seg.get_type(), seg.source_str)
        return (seg.get_type(), seg.raw)
    kids = []
    for c in seg.segments:
        if code_only:
            if not (c.is_code and not c.is_meta):
                continue
        elif c.is_meta and not include_meta:
            continue
        kids.append(node_from_tree(c, code_only, include_meta))
    return (seg.get_type(), kids)


def leaves(node, acc):
    t, v = node
    if isinstance(v, str):
        acc.append((t, v))
    else:
        for k in v:
            leaves(k, acc)
    return acc


HUMAN_LINE = re.compile(r"^\[L:\s*\d+, P:\s*\d+\]\s*\|(\s*)(\[META\] )?([^\s:]+):\s*(.*)$")


def human_leaves(text):
    """(type, raw) of lines that carry a quoted raw in `sqlfluff parse` human output / stringify()."""
    out = []
    for line in text.splitlines():
        m = HUMAN_LINE.match(line)
        if not m:
            continue
        rest = m.group(4)
        if m.group(2):
            continue  # metas print no raw
        if rest and rest[0] in "'\"":
            try:
                out.append((m.group(3), ast.literal_eval(rest)))
            except Exception:
                out.append((m.group(3), "<unparsed:%s>" % rest))
    return out


def first_diff(a, b):
    for i, (x, y) in enumerate(zip(a, b)):
        if x != y:
            return f"at {i}: {x!r} != {y!r}"
    return f"lengths {len(a)} vs {len(b)}"


class C28(Check):
    id = "C28"
    level = "exploration"
    rule = (
        "Domain: as C02 (fixtures of all dialects unmutated/mutated, arbitrary text, generated templates), each parsed "
        "tree serialised with tree.as_record(show_raw=True) in the option combinations the CLI uses (plain, "
        "--code-only, --include-meta with positions), tree.stringify() (human format), sqlfluff.parse() (API), and for "
        "a Hypothesis-drawn ~4% sample plus all pinned special-character cases the real `sqlfluff parse --format "
        "json|yaml|human` subprocess. Oracle: flattening the record depth-first gives exactly the (type, raw) list of "
        "the tree's leaves (non-meta; all with include_meta; code only with code_only); concatenation == rendered SQL; "
        "nesting of keys == nesting from an independent tree walk; JSON/YAML parse back to the same object; human "
        "lines list the same leaf texts in order. Non-trivial: some node has two children of the same type (forces "
        "list form) or the text contains quotes/newlines/non-ASCII; distinct by SHA-1 of the case."
    )
    PINNED_SPECIAL = [
        "SELECT 'a''b', \"q\"\"x\" FROM t\n", "SELECT 'tab\there', '\\n' FROM t -- trailing  \n", "select 'é\U0001F600' as \"ü\"\n",
        "SELECT a, a, a FROM t, t\n", "SELECT 1;\nSELECT 2;\n\n", "select '   ' ,'' from t   \n", "SELECT\n\ta\n\t, b\nFROM t\n",
        "select 'yes', 'no', 'null', 'true', '~', '1e3', '0x1' from t\n", "select ': ', '- a', '#c', '{a: b}', '[1]' from t\n",
        "select ((((1))))\n", "select /* c1 */ 1 /* c2 */ -- c3\n", "select 'line1\nline2' from t\n", "select '\\' from t\n",
        "select '" + "x" * 150 + "' as a -- " + "c" * 140 + "\nfrom t\n", "select 1" + " " * 140 + "from t /* " + "b" * 130 + " */\n",
    ]

    def pinned(self, tier):
        for c in lexparse.pinned_cases(tier, 2, 20):
            yield c
        for i, s in enumerate(self.PINNED_SPECIAL):
            for fmt in ("json", "yaml", "human"):
                yield {"dialect": "ansi", "templater": "raw", "sql": s, "origin": "special", "cli": fmt,
                       "flags": [[], ["--code-only"], ["--include-meta"]][i % 3]}

    def strategy(self, tier):
        base = lexparse.domain(tier)
        return st.tuples(base, st.integers(0, 74), st.sampled_from([[], ["--code-only"], ["--include-meta"]])).map(
            lambda t: dict(t[0], cli=[None, "json", "yaml", "human"][t[1]] if t[1] < 4 else None, flags=t[2]))

    def examples(self, tier):
        return 110 if tier == "quick" else 6000

    # ------------------------------------------------------------------ oracle pieces

    def check_record(self, out, tree, rec, code_only, include_meta, where):
        want = node_from_tree(tree, code_only, include_meta)
        try:
            got_nodes = nodes_from_record(rec)
        except ValueError as e:
            out.fail(str(e), clause="record-shape", where=where)
            return
        if len(got_nodes) != 1:
            out.fail(f"record has {len(got_nodes)} roots", clause="record-shape", where=where)
            return
        got = got_nodes[0]
        wl, gl = leaves(want, []), leaves(got, [])
        if wl != gl:
            out.fail("leaves differ " + first_diff(wl, gl), clause="leaves", where=where, code_only=code_only,
                     include_meta=include_meta)
            return
        if got != want:
            out.fail("nesting differs", clause="nesting", where=where, code_only=code_only, include_meta=include_meta)

    def run_case(self, case):
        out = Outcome(labels=lexparse.base_labels(case))
        obs = lexparse.Observation(case, parse=True)
        if obs.crash is not None:
            out.excluded = "config-rejected" if getattr(obs, "config_error", False) else "crash(C04):" + obs.crash.type
            return out
        if not obs.parsed.parsed_variants:
            out.excluded = "no-rendering(TMP)"
            return out
        sql = case["sql"]
        if re.search(r"['\"\n]", sql) and any(ord(c) > 127 for c in sql) or "''" in sql or '""' in sql:
            out.nontrivial = True
        pv = obs.parsed.parsed_variants[0]
        tree = pv.tree
        if tree is None:
            out.label("no-tree")
            return out
        rendered = pv.templated_file.templated_str
        # duplicate sibling types anywhere?
        for seg in tree.recursive_crawl_all():
            types = [c.get_type() for c in seg.segments if not c.is_meta]
            if len(set(types)) != len(types):
                out.nontrivial = True
                out.label("list-form")
                break
        for code_only, include_meta in ((False, False), (True, False), (False, True)):
            rec = guard(tree.as_record, code_only=code_only, show_raw=True, include_meta=include_meta,
                        include_position=include_meta)
            if isinstance(rec, Crash):
                out.fail(repr(rec), clause="as_record-raises", exc=rec.type)
                continue
            self.check_record(out, tree, rec, code_only, include_meta, "as_record")
            if not code_only and not include_meta:
                lv = leaves(nodes_from_record(rec)[0], []) if not out.fails else []
                if lv and "".join(r for _, r in lv) != rendered:
                    out.fail("concatenated leaf texts != rendered SQL", clause="concat", where="as_record")
            try:
                if json.loads(json.dumps(rec)) != rec:
                    out.fail("JSON round trip changes the record", clause="json-roundtrip", where="as_record")
            except Exception as e:
                out.fail(f"JSON: {e}", clause="json-roundtrip", where="as_record")
        # human format
        hl = human_leaves(tree.stringify())
        tl = [(s.get_type(), s.raw) for s in tree.raw_segments if not s.is_meta]
        if [r for _, r in hl] != [r for _, r in tl]:
            out.fail("human leaf texts differ " + first_diff([r for _, r in tl], [r for _, r in hl]), clause="human-leaves",
                     where="stringify", cause=self.human_cause(tree, hl, tl))
        # simple API (raises APIParsingError when there are violations: that is its documented result)
        if case.get("templater", "raw") == "raw" and not obs.parsed.violations:
            import sqlfluff

            rec = guard(sqlfluff.parse, sql, config=obs.config)
            if isinstance(rec, Crash):
                out.fail(repr(rec), clause="api-parse-raises", exc=rec.type)
            else:
                self.check_record(out, tree, rec, False, False, "api")
        if case.get("cli") and case.get("templater", "raw") == "raw" and sql.strip():
            self.run_cli(out, case, tree, rendered)
        return out

    @staticmethod
    def human_cause(tree, hl, tl):
        """Same texts in another order while an unparsable node holds a comment: the human format prints the
        comments of an unparsable section under a separate 'Comments:' heading before its code."""
        same_multiset = sorted(r for _, r in hl) == sorted(r for _, r in tl)
        unp_comment = any(any(c.is_type("comment") for c in u.segments) for u in tree.recursive_crawl("unparsable"))
        return "unparsable-comments-separated" if same_multiset and unp_comment else "other"

    def run_cli(self, out, case, tree, rendered):
        import yaml

        out.label("cli:" + case["cli"])
        d = tempfile.mkdtemp(dir=os.environ.get("VERIF_SCRATCH"))
        try:
            with open(os.path.join(d, "q.sql"), "w", encoding="utf8", newline="") as fh:
                fh.write(case["sql"])
            flags = list(case.get("flags") or [])
            p = subprocess.run([sys.executable, "-m", "sqlfluff", "parse", "q.sql", "--dialect", case["dialect"], "--encoding", "utf-8", "--format",
                                case["cli"], "--nocolor"] + flags, cwd=d, capture_output=True, text=True, encoding="utf8",
                               env=os.environ, timeout=300)
            if p.returncode not in (0, 1) or "Traceback" in p.stderr:
                out.excluded = "cli-crash(C04)"
                return
            code_only = "--code-only" in flags
            include_meta = "--include-meta" in flags
            if case["cli"] == "human":
                hl = [r for _, r in human_leaves(p.stdout)]
                tl = [s.raw for s in tree.raw_segments if not s.is_meta and (s.is_code or not code_only)]
                if hl != tl:
                    out.fail("CLI human leaf texts differ " + first_diff(tl, hl), clause="human-leaves", where="cli",
                             cause=self.human_cause(tree, [(None, r) for r in hl], [(None, r) for r in tl]))
                return
            try:
                doc = json.loads(p.stdout) if case["cli"] == "json" else yaml.safe_load(p.stdout)
            except Exception as e:
                out.fail(f"CLI {case['cli']} output does not parse: {e}", clause="cli-unparsable-output", where="cli")
                return
            if not isinstance(doc, list) or len(doc) != 1 or "segments" not in doc[0]:
                out.fail("unexpected CLI document shape", clause="record-shape", where="cli")
                return
            rec = doc[0]["segments"]
            if rec is None:
                out.fail("CLI returned null segments although a tree exists", clause="record-shape", where="cli")
                return
            self.check_record(out, tree, rec, code_only, include_meta, "cli-" + case["cli"])
        finally:
            shutil.rmtree(d, ignore_errors=True)


CHECK = C28()
