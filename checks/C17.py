"""C17 Fix and format are idempotent."""
from hypothesis import strategies as st

from vlib import fixlib
from vlib.framework import Check, Outcome
from vlib.sf import Crash

SOFT_KINDS = [7, 7, 8, 8, 3, 2, 6, 1, 0]


class C17(Check):
    id = "C17"
    level = "exploration"
    rule = (
        "Domain: inputs that parse cleanly (pre-check; others excluded and counted): pinned slice of the fixture corpus "
        "of every dialect x {format set (what `sqlfluff format` runs), layout, all}; generated fixtures (half lightly "
        "mutated) and G-sql valid queries with layout noise (DISTINCT off: F-C05-a) x the same rule sets; one case in "
        "three (generated) / seven (pinned) runs with runaway_limit 2 or 3 so that the give-up-and-roll-back path of the "
        "fix loop is exercised. "
        "Oracle: x1 = fix(x) via Linter.lint_string(fix=True)+fix_string; the same on x1 with the same config must "
        "report no change (x2 == x1). Outputs that no longer parse are C13's and are excluded here (the CLI would "
        "refuse to touch them). Non-trivial: the first pass changed the file."
    )
    assumptions = ["fix/format are exercised through the API objects the CLI commands call, raw templater"]

    def pinned(self, tier):
        for i, c in enumerate(fixlib.pinned_slice(tier, ["format", "layout", "all"], 6, 30, offset=2)):
            if i % 7 == 3:
                c["rule_configs"] = {"core": {"runaway_limit": 2}}
            yield c

        # lines whose length sits around max_line_length (80) before / after other rules insert or remove text on them
        # (implicit aliases, missing AS, double blanks, trailing comments incl. noqa): the interplay of LT05 with the
        # other fixes of the same pass is where a second pass finds more to do
        for n in range(72, 86):
            pad = "a" * max(1, n - len("SELECT  AS col_one, b FROM some_table_name t WHERE t.b = 1"))
            line = f"SELECT {pad} AS col_one, b FROM some_table_name t WHERE t.b = 1"
            for rules in ("all", "format"):
                yield {"dialect": "ansi", "sql": line + "\n", "rules": rules, "origin": "line-length-family"}
                yield {"dialect": "ansi", "sql": line.replace(" AS col_one", " col_one") + "\n", "rules": rules,
                       "origin": "line-length-family"}
        for cm in ("-- note", "-- note -- noqa: LT01", "-- noqa: LT01", "-- a long explanation -- noqa: CP01", "/* c */"):
            for rules in ("all", "format", "layout"):
                yield {"dialect": "ansi", "origin": "long-line-comment-family", "rules": rules,
                       "sql": "SELECT  a_rather_long_column_name,  another_rather_long_column_name from  some_table_name " + cm + "\n"}

    def strategy(self, tier):
        base = fixlib.fix_case(tier=tier, rules=st.sampled_from(["format", "format", "layout", "all"]),
                               kinds=SOFT_KINDS if tier == "quick" else None)
        # a small runaway_limit makes the fix loop give up (and roll back) on inputs that need several sweeps
        cfg = st.sampled_from([None, None, None, None, {"core": {"runaway_limit": 2}}, {"core": {"runaway_limit": 3}}])
        return st.tuples(base, cfg).map(lambda t: dict(t[0], rule_configs=t[1]) if t[1] else t[0])

    def examples(self, tier):
        return 30 if tier == "quick" else 800

    def budget_s(self, tier):
        return 400.0 if tier == "quick" else 1700.0

    def run_case(self, case):
        out = Outcome(labels=fixlib.base_labels(case))
        if case.get("rule_configs"):
            out.label("runaway_limit:%s" % case["rule_configs"].get("core", {}).get("runaway_limit"))
        run = fixlib.FixRun(case, require_clean=True)
        if run.excluded:
            out.excluded = run.excluded
            return out
        if not run.changed:
            out.label("fix-unchanged")
            return out
        out.label("fix-changed")
        rp = run.reparse()
        if isinstance(rp, Crash) or rp[0]:
            out.excluded = "output-unparsable(C13)"
            return out
        out.nontrivial = True
        two = run.second()
        if two.excluded:
            out.excluded = "pass2:" + two.excluded
            return out
        if not two.changed:
            return out
        # which rule(s) still edit the already-fixed text?
        cands = two.fixing_rules()
        alone = []
        for r in cands[:8]:
            c = dict(case)
            c["sql"] = run.fixed
            c["rules"] = r
            rr = fixlib.FixRun(c)
            if not rr.excluded and rr.changed:
                alone.append(r)
        rule = "+".join(alone) if alone else "combo:" + "+".join(cands)
        off = fixlib.first_diff(run.fixed, two.fixed)
        where = fixlib.construct_at(run.tree, off) if run.tree.raw == run.fixed else "source-space-fix"
        # does it settle, or do two rules undo each other for ever?
        three = two.second()
        if three.excluded:
            third = "excluded"
        elif not three.changed:
            third = "settles-after-2"
        elif three.fixed == run.fixed:
            third = "2-cycle"
        else:
            third = "keeps-changing"
        first = run.fixing_rules()
        seen = "also-in-pass1" if any(r in first for r in (alone or cands)) else "new-in-pass2"

        # which first-pass rules are needed to get into the unstable state?
        def still(c):
            r1 = fixlib.FixRun(c, require_clean=True)
            if r1.excluded or not r1.changed:
                return False
            r2 = r1.second()
            return not r2.excluded and r2.changed

        cause = fixlib.attribute(case, first, still, limit=12)
        out.fail(f"second pass still changes the text at offset {off}: {run.fixed[max(0, off - 60):off + 60]!r} -> "
                 f"{two.fixed[max(0, off - 60):off + 60]!r}", clause="not-idempotent", rule=rule, cause=cause,
                 where=where, third=third, seen=seen)
        return out


CHECK = C17()
