"""C17 Fix and format are idempotent."""
from hypothesis import strategies as st

from vlib import fixlib
from vlib.framework import Check, Outcome
from vlib.sf import Crash

SOFT_KINDS = [7, 7, 8, 8, 3, 2, 6, 1, 0]


class C17(Check):
    id = "C17"
    level = "exploration"
    rule = (
        "Domain: inputs that parse cleanly (pre-check; others excluded and counted): pinned slice of the fixture corpus "
        "of every dialect x {format set (what `sqlfluff format` runs), layout, all}; generated fixtures (half lightly "
        "mutated) and G-sql valid queries with layout noise (DISTINCT off: F-C05-a/F-C17-b) x the same rule sets. "
        "Oracle: x1 = fix(x) via Linter.lint_string(fix=True)+fix_string; the same on x1 with the same config must "
        "report no change (x2 == x1). Outputs that no longer parse are C13's and are excluded here (the CLI would "
        "refuse to touch them). Non-trivial: the first pass changed the file."
    )
    assumptions = ["fix/format are exercised through the API objects the CLI commands call, raw templater"]

    def pinned(self, tier):
        return fixlib.pinned_slice(tier, ["format", "layout", "all"], 6, 40, offset=2)

    def strategy(self, tier):
        return fixlib.fix_case(tier=tier, rules=st.sampled_from(["format", "format", "layout", "all"]),
                               kinds=SOFT_KINDS if tier == "quick" else None)

    def examples(self, tier):
        return 45 if tier == "quick" else 2000

    def budget_s(self, tier):
        return 400.0 if tier == "quick" else 1700.0

    def run_case(self, case):
        out = Outcome(labels=fixlib.base_labels(case))
        run = fixlib.FixRun(case, require_clean=True)
        if run.excluded:
            out.excluded = run.excluded
            return out
        if not run.changed:
            out.label("fix-unchanged")
            return out
        out.label("fix-changed")
        rp = run.reparse()
        if isinstance(rp, Crash) or rp[0]:
            out.excluded = "output-unparsable(C13)"
            return out
        out.nontrivial = True
        two = run.second()
        if two.excluded:
            out.excluded = "pass2:" + two.excluded
            return out
        if not two.changed:
            return out
        # which rule(s) still edit the already-fixed text?
        cands = two.fixing_rules()
        alone = []
        for r in cands[:8]:
            c = dict(case)
            c["sql"] = run.fixed
            c["rules"] = r
            rr = fixlib.FixRun(c)
            if not rr.excluded and rr.changed:
                alone.append(r)
        rule = "+".join(alone) if alone else "combo:" + "+".join(cands)
        off = fixlib.first_diff(run.fixed, two.fixed)
        where = fixlib.construct_at(run.tree, off) if run.tree.raw == run.fixed else "?"
        out.fail(f"second pass still changes the text at offset {off}: {run.fixed[max(0, off - 60):off + 60]!r} -> "
                 f"{two.fixed[max(0, off - 60):off + 60]!r}", clause="not-idempotent", rule=rule, where=where)
        return out


CHECK = C17()
