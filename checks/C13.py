"""C13 Fixing never makes a parsable file unparsable."""
from hypothesis import strategies as st

from vlib import fixlib
from vlib.framework import Check, Outcome
from vlib.sf import Crash, code_of

# mutation operators that usually keep a fixture parsable (see gens.apply_mutation): swap case, replace blanks,
# swap words, duplicate a span, insert a keyword, insert a token, delete a span
SOFT_KINDS = [7, 7, 8, 8, 3, 2, 6, 1, 0]


class C13(Check):
    id = "C13"
    level = "exploration"
    rule = (
        "Domain: as C12, restricted by a parse-only pre-check to inputs that render, lex and parse with zero "
        "TMP/LXR/PRS (others are excluded and counted): pinned slice of the fixture corpus of every dialect x "
        "{format, all, layout, core}; generated fixtures (half mutated with operators that often keep the file "
        "parsable) and G-sql valid queries with layout noise x {format, layout, core, all, single fix-capable rule}. "
        "Oracle (metamorphic): Linter.parse_string of the text returned by fix_string, same config object, reports "
        "zero TMP/LXR/PRS. Crashes / rule-internal errors are excluded and counted (C04/C05). Non-trivial: the fix "
        "changed the file."
    )
    assumptions = ["raw templater only, so 'renders' is trivially true before and after"]

    def pinned(self, tier):
        yield from fixlib.pinned_slice(tier, ["all", "format", "core", "layout"], 8, 30, offset=1)
        yield from fixlib.structure_family()

    def strategy(self, tier):
        return fixlib.fix_case(tier=tier, kinds=SOFT_KINDS if tier == "quick" else None, structure=True)

    def examples(self, tier):
        return 42 if tier == "quick" else 1300

    def budget_s(self, tier):
        return 400.0 if tier == "quick" else 1700.0

    def judge(self, case):
        """(run, errs, parsed, glue)"""
        run = fixlib.FixRun(case, require_clean=True)
        if run.excluded or not run.changed:
            return run, [], None, "none"
        rp = run.reparse()
        if isinstance(rp, Crash):
            run.excluded = "crash(C04):" + rp.type
            return run, [], None, "none"
        glue = "none"
        if rp[0]:
            # is it a glued / split token (the C12 view of the same output)?
            rl = run.relexed()
            if not isinstance(rl, Crash) and run.tree.raw == run.fixed:
                d = fixlib.seq_diff(run.tree_tokens(), rl[0])
                if d is not None:
                    glue = d[0] + ":" + "+".join(t[2] for t in d[1][:2])
        return run, rp[0], rp[1], glue

    def run_case(self, case):
        out = Outcome(labels=fixlib.base_labels(case))
        run, errs, parsed, glue = self.judge(case)
        if run.excluded:
            out.excluded = run.excluded
            return out
        if not run.changed:
            out.label("fix-unchanged")
            return out
        out.label("fix-changed")
        out.nontrivial = True
        if not errs:
            return out
        kind = code_of(errs[0])

        def still(c):
            _, e, _, g = self.judge(c)
            return bool(e) and code_of(e[0]) == kind and g == glue

        rule = fixlib.attribute(case, run.fixing_rules(), still, limit=20)
        at, first = "-", "-"
        rv = parsed.root_variant()
        if rv is not None:
            fu = fixlib.first_unparsable(rv.tree)
            if fu:
                at, first = fu
        out.fail(f"{kind}: {errs[0].desc()[:120]} after fixing; fixed={run.fixed[:160]!r}", clause="new-" + kind, rule=rule,
                 glue=glue, at=at, first=first)
        return out


CHECK = C13()
