"""C07 Template source maps are consistent for every templater and variant."""
import re

from hypothesis import strategies as st

from vlib import gens, tpl
from vlib.framework import Check, Outcome
from vlib.sf import Crash, guard
from vlib.tpl import cached_cfg, jinja_parses, ws_control
from vlib.tmap import slicemap_problems

LIMITS = (1, 5, 10)

# hand-written corner cases (run on every tier in addition to replays/C07)
PINNED_JINJA = [
    "SELECT 1\n",
    "{% if flag %}a{% else %}b{% endif %}\n",
    "{% if false %}a{% elif false %}b{% elif true %}c{% else %}d{% endif %}",
    "{% if flag %}{% if false %}x{% else %}y{% endif %}{% else %}{% if true %}p{% else %}q{% endif %}{% endif %}",
    "a\n  {%- if false -%}  b  {%- endif -%}  \nc",
    "a   {#- c -#}   b {{- x -}} c",
    "{% if false %}b{% endif %}{% for i in [1,2] %}a{% endfor %}d",
    "{% for i in [1,2] %}a{% endfor %}{% if false %}b{% endif %}d",
    "{% for i in [] %}a{% else %}b{% endfor %}",
    "{% for i in [1,2] %}{{ i }},{% endfor %}{% if false %}zz{% endif %}",
    "{% set v %}  body {% if false %}q{% endif %}{% endset %}{{ v }}",
    "{% macro m(p) %}[{{ p }}{% if false %}q{% endif %}]{% endmacro %}{{ m(1) }}{{ m(2) }}",
    "{% raw %}{{ x }}{% endraw %}{% if false %}b{% endif %}",
    "SELECT {{ a }}{{ b }}{{ x }} FROM t{# c #}",
    "{%+ if true -%}\n  a\n{%- else +%}\n  b\n{%+ endif %}",
    "x\r\n{% if false %}\r\ny\r\n{% endif %}z\r",
    "",
    "{% if false %}{% endif %}",
]
PINNED_PY = ["", "SELECT 1", "{{", "}}", "{{}}", "a{{b}}c {a} {{ {b} }}", "{a}{b}{tbl}", "{foo.bar} {a.b:>12}",
             "{a!r:>10} {b:04d} {a:{b}}", "{{{a}}}", "{a}{a}{a} a a", "}}{{"]
PINNED_PH = [("colon", "SELECT :name, :a::int, x:name, \\:name FROM t WHERE b = :b1"), ("colon_nospaces", "tbl:name::a:a"),
             ("colon_optional_quotes", "SELECT :\"name\", :'a', :a, :\"a' FROM t"), ("numeric_colon", ":1:2 :10 a:1"),
             ("pyformat", "%(name)s%(a)s %(zz)s"), ("dollar", "$name ${a} ${name $a}"), ("dollar_surround", "$name$ $a$a$"),
             ("flyway_var", "${flyway:database}.${name}"), ("question_mark", "? ?? a? ?"), ("numeric_dollar", "$1 ${2} $10$1"),
             ("percent", "%s %s%s a%s"), ("ampersand", "&name &{a} &&a"), ("colon", ""), ("colon", ":")]
PH_CTX = {"name": "nval", "a": "aval", "b1": 5, "1": "one", "2": "two", "10": "ten", "flyway:database": "db"}


def loop_ranges(raw_sliced):
    """Source ranges [start, stop) of {% for %}...{% endfor %} computed from the raw slices."""
    out, stack = [], []
    for rs in raw_sliced:
        if rs.slice_type == "block_start" and rs.tag == "for":
            stack.append(rs.source_idx)
        elif rs.slice_type == "block_end" and rs.tag == "endfor" and stack:
            out.append((stack.pop(), rs.source_idx + len(rs.raw)))
    return out


class RectifyTap:
    """Records the `length_deltas` argument of every JinjaTemplater._rectify_templated_slices call (one call per
    alternate variant, made immediately before that variant is yielded).  Used only to *name the cause* in the
    signature of a failure (is a rewritten if/elif tag inside a loop?); the oracle itself never looks at it."""

    def __enter__(self):
        self.calls = []
        self.cls = None
        try:
            from sqlfluff.core.templaters.jinja import JinjaTemplater

            orig = JinjaTemplater.__dict__.get("_rectify_templated_slices")
            fn = orig.__func__ if isinstance(orig, staticmethod) else None
        except Exception:
            fn = None
        if fn is None:
            return self
        self.cls, self.orig = JinjaTemplater, orig

        def tap(length_deltas, sliced_template):
            self.calls.append((dict(length_deltas), [t.source_slice.start for t in sliced_template]))
            return fn(length_deltas, sliced_template)

        JinjaTemplater._rectify_templated_slices = staticmethod(tap)
        return self

    def __exit__(self, *a):
        if self.cls is not None:
            self.cls._rectify_templated_slices = self.orig
        return False


def alternate_cause(tf, call):
    """Coarse cause label for an alternate jinja variant, from the tapped arguments: the {original source index:
    length change} of the rewritten if/elif tags and the source starts of the variant's slices *before* they are
    mapped back (coordinates of the rewritten template, rendered order).  How often does the trace visit each
    rewritten tag?  (once per loop iteration; never inside an empty loop, a macro or a set block)"""
    if call is None:
        return "unknown"
    deltas, starts = call
    if not deltas:
        return "nothing-rewritten"
    # position of each rewritten tag in the rewritten template = original index + deltas of earlier rewritten tags
    visits = [starts.count(idx + sum(d for j, d in deltas.items() if j < idx)) for idx in deltas]
    if min(visits) == 0:
        return "rewritten-if-never-visited"
    if max(visits) > 1:
        return "rewritten-if-visited-repeatedly"
    return "rewritten-ifs-each-visited-once"


def python_cause(case, src, tf):
    """Cause label for a failing python-templater map (signature only).  The python slicer finds literals by searching
    their text in the rendered string; when it misplaces them, _check_for_wrapped trims the rendered text to the
    span of the slices (known finding F-C09-c).  'rendering-trimmed': the rendered text is no longer what str.format
    gives (C09's reference); 'backward-rendered-slice': a slice whose rendered stop lies before its start."""
    try:
        from checks.C09 import Invalid, py_reference

        try:
            if py_reference(src, case.get("context") or {}, case.get("dotted")) != tf.templated_str:
                return "rendering-trimmed"
        except Invalid:
            pass
    except Exception:
        pass
    if any(s.templated_slice.stop < s.templated_slice.start for s in tf.sliced_file):
        return "backward-rendered-slice"
    return "-"


class C07(Check):
    id = "C07"
    level = "exploration"
    rule = (
        "Domain: generated Jinja templates (realistic and adversarial concatenation; if/elif/else and for forced for "
        "15-30 % of elements so that alternate variants for unreached branches, also nested in loops, are frequent; "
        "set, macro, raw, comments, whitespace control; for/else only over empty iterables because the templater skips "
        "files with a for/else that iterates; templates plain Jinja cannot parse are filtered out), the bundled "
        "templater fixtures, python format strings (escaped braces, conversions, specs, nested specs, dotted names, "
        "invalid pieces) and placeholder SQL in all 12 styles with no/some/all values; "
        "render_variant_limit in {1,5,10}; every TemplatedFile in Linter.render_string(...).templated_variants (and "
        "from templater.process_with_variants directly for pinned cases). Oracle (vlib.tmap.slicemap_problems): raw "
        "slices tile the source in order with equal text, rendered slices tile the rendered text in order, every "
        "source slice within [0,len] with start<=stop, every literal slice with non-empty rendering has identical "
        "source text; placeholder (no control flow): the source side of the rendered map tiles the source too and a skipped file is a failure; #variants <= limit; an AssertionError raised by TemplatedFile's own length check counts as a "
        "tiling failure. Non-trivial: more than one variant, or a loop, or whitespace control, or an escaped brace, "
        "or a placeholder replaced by text of another length; distinct by SHA-1 of the case."
    )
    assumptions = [
        "A templater that refuses the file (TMP error without output, SQLFluffSkipFile) is outside the domain (counted).",
        "Other exceptions while templating are C04's business (counted as excluded).",
        "The cause label of a failing alternate variant is read from the arguments of "
        "JinjaTemplater._rectify_templated_slices (tapped inside the check process); the verdict does not depend on it.",
    ]

    # ------------------------------------------------------------------ cases
    def pinned(self, tier):
        for i, s in enumerate(PINNED_JINJA):
            for lim in ((5, 10) if i % 2 else (10, 1)):
                yield {"templater": "jinja", "sql": s, "context": dict(gens.JCTX), "variant_limit": lim,
                       "via": "templater" if lim == 10 else "linter", "origin": "pinned"}
        for s in PINNED_PY:
            yield {"templater": "python", "sql": s, "context": dict(gens.PYCTX), "dotted": dict(gens.PYDOT),
                   "variant_limit": 5, "origin": "pinned"}
        for style, s in PINNED_PH:
            for ctx in ({}, dict(PH_CTX)):
                yield {"templater": "placeholder", "sql": s, "param_style": style, "context": ctx, "variant_limit": 5,
                       "origin": "pinned"}
        for r in gens.templater_corpus():
            if len(r["sql"]) < (1500 if tier == "quick" else 4000):
                yield {"templater": "jinja", "sql": r["sql"], "context": dict(gens.JCTX), "variant_limit": 10,
                       "origin": "templater-fixture:" + r["name"]}

    def strategy(self, tier):
        def with_limit(s):
            return st.tuples(s, st.sampled_from((1, 5, 5, 5, 10, 10, 10))).map(
                lambda t: dict(t[0], variant_limit=t[1]))

        kw = dict(for_else="empty")  # for/else over a non-empty iterable: the templater skips the file (counted)
        jin = st.one_of(
            gens.jinja_case(profile="realistic", control_bias=0.3, **kw),
            gens.jinja_case(profile="adversarial", control_bias=0.3, **kw),
            gens.jinja_case(profile="realistic", control_bias=0.15, **kw),
            gens.jinja_case(profile="adversarial", control_bias=0.15, **kw),
            gens.jinja_case(profile="realistic", **kw),
            gens.jinja_case(profile="adversarial", control_bias=0.2, undefined=True, **kw),
        ).filter(lambda c: len(c["sql"]) <= 1200 and jinja_parses(c["sql"]))
        other = st.one_of(gens.pyfmt_case(), tpl.pyfmt_rich_case(), gens.placeholder_case(), tpl.placeholder_rich_case())
        return with_limit(st.one_of(jin, jin, other))

    def budget_s(self, tier):
        # safety net only (the case counts are the bound); generous because the box may be shared
        return 420.0 if tier == "quick" else 1700.0

    def examples(self, tier):
        return 190 if tier == "quick" else 12000

    # ------------------------------------------------------------------ one case
    def run_case(self, case):
        from sqlfluff.core import Linter

        templater = case.get("templater", "jinja")
        sql = case["sql"]
        limit = int(case.get("variant_limit", 5))
        out = Outcome(labels=["templater:" + templater, "limit:%d" % limit])
        try:
            cfg = cached_cfg(templater, context=case.get("context"), param_style=case.get("param_style"),
                             dotted=case.get("dotted"), render_variant_limit=limit)
            linter = Linter(config=cfg)
        except Exception:
            out.excluded = "config-rejected"
            return out
        src = Linter._normalise_newlines(sql)
        with RectifyTap() as tap:
            if case.get("via") == "templater":
                def direct():
                    res = []
                    for tf, _errs in linter.templater.process_with_variants(in_str=src, fname="t.sql", config=cfg):
                        res.append(tf)
                        if len(res) >= limit:
                            break
                    return res
                got = guard(direct)
                viols = []
            else:
                got = guard(linter.render_string, sql, "t.sql", cfg, "utf8")
                if not isinstance(got, Crash):
                    viols = list(got.templater_violations)
                    got = list(got.templated_variants)
        if isinstance(got, Crash):
            if got.type == "AssertionError" and (got.frame or "").endswith("templaters/base.py:__init__"):
                # TemplatedFile's own running-length check of the raw slices failed: the templater computed slices
                # that do not tile the source.
                cause = "other"
                if templater == "python" and re.search(r"\{[^{}]*:\}", src):
                    cause = "empty-format-spec"
                elif templater == "jinja" and re.search(r"\{#[-+]?$", src):
                    # Jinja accepts a template that ends with a comment opener (the lexer emits comment_begin and stops)
                    cause = "comment-opener-at-eof"
                return out.fail(got.msg, templater=templater, variant="primary", clause="ctor-consistency-assert",
                                cause=cause)
            if got.type in ("SQLFluffSkipFile", "SQLTemplaterError"):
                out.excluded = "templater-refused:" + got.type
                return out
            out.excluded = "crash(C04):" + got.type
            return out
        if not got:
            if viols:
                out.excluded = "templater-refused:TMP"
                return out
            if templater == "placeholder":
                # The placeholder templater has no reason to refuse a file.  No rendering and no violation means the
                # linter swallowed the SQLFluffSkipFile that TemplatedFile raises when the rendered slices it was
                # given do not tile the rendered text.
                direct = guard(lambda: linter.templater.process(in_str=src, fname="t.sql", config=cfg))
                msg = direct.msg if isinstance(direct, Crash) else "no exception on a direct call"
                return out.fail(f"file skipped: {msg}", templater=templater, variant="primary", clause="ctor-consistency-skip",
                                cause="-")
            out.excluded = "skipped"
            return out
        if len(got) > limit:
            out.fail(f"{len(got)} variants with render_variant_limit={limit}", templater=templater, variant="all",
                     clause="variant-limit", cause="-")
        out.label("variants:%d" % min(len(got), 4))
        has_loop = False
        for vi, tf in enumerate(got):
            var = "primary" if vi == 0 else "alternate"
            if tf.source_str != src:
                out.fail(f"source_str {tf.source_str[:60]!r} is not the (newline-normalised) input {src[:60]!r}",
                         templater=templater, variant=var, clause="source-identity", cause="-")
                continue
            probs = slicemap_problems(tf)
            if vi == 0:
                has_loop = bool(loop_ranges(tf.raw_sliced))
            if templater == "placeholder" and not probs:
                # no control flow: the rendered map walks the source once, left to right, so its source side tiles
                # the source as well
                spos = 0
                for i, sl in enumerate(tf.sliced_file):
                    if sl.source_slice.start != spos:
                        probs.append(("source-side-tiling", f"slice {i} {sl.slice_type} source {sl.source_slice}, expected "
                                      f"start {spos}"))
                        break
                    spos = sl.source_slice.stop
                else:
                    if spos != len(src):
                        probs.append(("source-side-tiling", f"source side covers {spos} of {len(src)}"))
            for clause, detail in probs:
                cause = "-"
                if templater == "jinja" and vi > 0:
                    cause = alternate_cause(tf, tap.calls[vi - 1] if vi - 1 < len(tap.calls) else None)
                elif templater == "python":
                    cause = python_cause(case, src, tf)
                out.fail(f"variant {vi}: {detail}", templater=templater, variant=var, clause=clause, cause=cause)
            if vi > 0:
                out.label("alternate-variant")
                if templater == "jinja" and vi - 1 < len(tap.calls):
                    out.label("alt:" + alternate_cause(tf, tap.calls[vi - 1]))
        # non-trivial rule
        nt = len(got) > 1
        if templater == "jinja":
            if has_loop:
                nt = True
                out.label("has-loop")
            if ws_control(src):
                nt = True
                out.label("ws-control")
            if any(s.slice_type != "literal" for s in got[0].sliced_file):
                out.label("non-literal-slices")
        elif templater == "python":
            if "{{" in src or "}}" in src:
                nt = True
                out.label("escaped-brace")
        elif templater == "placeholder":
            tf = got[0]
            if any(s.slice_type == "templated" and (s.templated_slice.stop - s.templated_slice.start)
                   != (s.source_slice.stop - s.source_slice.start) for s in tf.sliced_file):
                nt = True
                out.label("length-changing-parameter")
            out.label("style:" + str(case.get("param_style")))
        if case.get("undefined"):
            out.label("undefined-vars")
        out.nontrivial = nt
        out.info = {"variants": len(got)}
        return out


CHECK = C07()
