"""C18 Files with template or parse errors are never modified by fix."""
import os

from vlib import clilib as C
from vlib.framework import Check, Outcome
from vlib.sf import FORMAT_RULES, Crash, guard

CLI_ENTRIES = ["fix-path", "fix-stdin", "format-path", "format-stdin", "fix-check-y"]


def scenario(pick):
    mode = pick.choice(["error", "error", "error", "error", "looplimit"])
    if mode == "looplimit":
        sql, names, hkind, jinja = C.content(pick, errors="none", noqa="none", max_parts=3,
                                                  classes=("clean", "fixable", "multipass", "multipass", "unfixable"))
        cfg = C.core_cfg(pick, templater_jinja=jinja)
        cfg["runaway_limit"] = pick.choice([1, 1, 2])
    else:
        sql, names, hkind, jinja = C.content(pick, errors="always", noqa="errors", max_parts=3,
                                                  classes=("clean", "fixable", "fixable", "fixable", "multipass", "unfixable"))
        # suppression through the configuration as often as through noqa; the lint violations mostly stay live
        cfg = C.core_cfg(pick, feu=True, templater_jinja=jinja,
                              rule_sets=[None, None, "core", "all", "LT01,CP01,LT09,LT02,LT12", "layout,capitalisation",
                                         "LT01,LT09,LT02,AM01,AL04,LT05"],
                              excludes=[None, None, None, None, "CP01", "LT09,LT02", "LT12"],
                              ignore=[None, None, None, "parsing", "templating", "parsing,templating", "parsing,templating",
                                      "parsing,templating,linting"],
                              warnings=[None, None, None, "PRS", "TMP", "PRS,TMP", "PRS,TMP", "LT01", "PRS,TMP,CP01"])
    case = {"sql": sql, "fname": "q.sql", "cfg": cfg, "pieces": names,
            "entries": sorted(pick.sample(CLI_ENTRIES, 2))}
    if pick.chance(1, 5):
        case["fname"] = "sub/q.sql"
        case["sub"] = C.sub_cfg(pick)
    cli = {}
    if mode == "error" and pick.chance(1, 6):
        cli["ignore"] = pick.choice(["parsing", "templating", "parsing,templating"])
    if mode == "error" and pick.chance(1, 12):
        cli["feu"] = True
    if cli:
        case["cli"] = cli
    return case


class C18(Check):
    id = "C18"
    level = "exploration"
    rule = (
        "Scenario = one SQL file that combines a TMP or PRS error piece (unparsable clause, dangling operator, garbage "
        "statement, unclosed bracket = no tree; undefined jinja variable with and without a follow-on parse error, fatal "
        "template syntax error = no tree) with clean / fixable / multi-pass fixable / unfixable pieces; the error is "
        "unsuppressed or suppressed by '-- noqa', '-- noqa: PRS|TMP', 'noqa: disable=all|PRS', ignore = parsing/templating "
        "(file or --ignore), warnings = PRS/TMP; project config as in C22 (dialect, templater, rules, exclude_rules, "
        "nested sub/.sqlfluff); fix_even_unparsable on in one case of six as the control. One case in five has no error "
        "but runaway_limit = 1 or 2 with pieces that need one to three passes. Entry points per case: two of {fix PATH, "
        "fix - --stdin-filename, format PATH, format -, fix --check PATH answered 'y' on a pseudo-terminal} as real "
        "subprocesses (cwd = fresh project copy each), plus in-process sqlfluff.fix and Linter.lint_paths(fix=True, "
        "apply_fixes=True) on a fresh copy. Oracle: when the unfiltered violation list (in-process run, noqa disabled, "
        "ignore/warnings not applied) contains TMP or PRS and fix_even_unparsable is off, file bytes / stdout / return "
        "value equal the input and no other file appears. Loop limit: every output is either the input or a fixed point "
        "of a second fix with runaway_limit = 10; when the input comes back although the runaway_limit = 10 control "
        "changes it, the CLI exits 1 and lint_paths reports no violation with fixes. Non-trivial: every TMP/PRS error "
        "is suppressed and the control run (same file, unfiltered) has a violation carrying a fix; or the loop limit was "
        "actually hit. Distinct = SHA-1 of the case."
    )
    assumptions = [
        "format with fix_even_unparsable = True in the config file is not judged (the statement does not say whether "
        "that enables fixing for format).",
        "An exception escaping sqlfluff.fix is C04's business (counted as excluded), it changes nothing.",
    ]
    shrink_budget = 6

    def selftest(self):
        C.selftest_models()
        assert C.is_tmp_prs({"code": "PRS"}) and C.is_tmp_prs({"code": "TMP"}) and not C.is_tmp_prs({"code": "LXR"})

    def strategy(self, tier):
        return C.scenarios(scenario)

    def examples(self, tier):
        return 5 if tier == "quick" else 250

    def budget_s(self, tier):
        return 600.0 if tier == "quick" else 1700.0

    # ------------------------------------------------------------------ entry points -> (output text, rc, extra files)

    def _start_entry(self, case, entry):
        """Start one CLI entry point on its own project copy -> handle for _finish_entry."""
        cmd = "format" if entry.startswith("format") else "fix"
        args = [cmd] + C.cli_opts(case)
        if (case.get("cli") or {}).get("feu") and cmd == "fix":
            args.append("--FIX-EVEN-UNPARSABLE")
        pr = C.Project(case, "e")
        before = pr.listing()
        if entry.endswith("-stdin"):
            job = C.CliJob(args + ["-", "--stdin-filename", pr.fname], pr.root, stdin=pr.data)
        elif entry == "fix-check-y":
            job = None  # needs a pseudo-terminal and a dialogue: run in the foreground by _finish_entry
        else:
            job = C.CliJob(args + [pr.fname], pr.root)
        return entry, args, pr, before, job

    def _finish_entry(self, handle):
        entry, args, pr, before, job = handle
        try:
            if job is None:
                rc, so, se = C.run_cli_tty(args + ["--check", pr.fname], pr.root, b"y", timeout=240)
            else:
                rc, so, se = job.result()
            if entry.endswith("-stdin"):
                # the named file must stay as it was; a change is reported by the caller (text None)
                text = so if pr.read() == pr.data else None
            else:
                text = pr.read().decode("utf-8", "replace")
            extra = [f for f in pr.listing() if f not in before]
        finally:
            pr.cleanup()
        return text, rc, extra, so, se

    def _api_fix(self, case):
        import sqlfluff

        with C.Project(case, "a") as pr:
            cli = case.get("cli") or {}
            nested = case.get("sub") is not None and case.get("fname", "").startswith("sub/")
            feu = True if cli.get("feu") else None
            if nested or cli.get("ignore") or cli.get("disable_noqa"):
                return sqlfluff.fix(case["sql"], config=C.file_config(pr), fix_even_unparsable=feu)
            return sqlfluff.fix(case["sql"], config_path=os.path.join(pr.root, ".sqlfluff"), fix_even_unparsable=feu)

    def _api_paths(self, case, feu):
        from sqlfluff.core import Linter

        with C.Project(case, "b") as pr:
            before = pr.listing()
            res = Linter(config=C.root_config(pr)).lint_paths((pr.path,), fix=True, apply_fixes=True,
                                                              fix_even_unparsable=feu)
            with_fixes = sum(1 for rec in res.as_records() for v in rec["violations"] if v.get("fixes"))
            return pr.read().decode("utf-8", "replace"), with_fixes, [f for f in pr.listing() if f not in before]

    def _stable(self, case, text, cmd):
        """Is ``text`` a fixed point of fix/format under the scenario's settings with a generous loop limit?"""
        from sqlfluff.core import Linter

        extra = {"rules": FORMAT_RULES} if cmd == "format" else {}
        with C.Project(dict(case, sql=text), "c") as pr:
            res = Linter(config=C.root_config(pr, runaway_limit=10, **extra)).lint_paths((pr.path,), fix=True,
                                                                                         apply_fixes=False)
            lf = res.paths[0].files[0]
            if lf.tree is None or lf.templated_file is None:
                return True
            return lf.fix_string()[0] == text

    def run_case(self, case):
        C.prepare_inprocess()
        out = Outcome()
        sql = case["sql"]
        eff = C.effective(case)
        directives = C.parse_noqa(sql)
        gt = guard(C.ground_truth, case)
        if isinstance(gt, Crash) or gt.get("missing"):
            out.excluded = "crash(C04):ground-truth"
            return out
        vs = gt["violations"]
        tp_full = C.tp_state(vs, eff, directives)
        has_tp = tp_full != "none"
        feu_fix = bool(eff.get("fix_even_unparsable"))
        limit = eff.get("runaway_limit")
        supp = "none"
        all_suppressed = False
        if has_tp:
            kinds = sorted({C.suppression(v, eff, directives) or "live" for v in vs if C.is_tmp_prs(v)})
            supp = "+".join(kinds)
            all_suppressed = "live" not in kinds
        fixable_live = [v for v in vs if not C.is_tmp_prs(v) and v["fixable"] and C.suppression(v, eff, directives) is None]
        out.label("tp:" + tp_full.split(":")[0], "tree:%s" % gt["tree"])
        if feu_fix:
            out.label("control:fix_even_unparsable")
        if limit:
            out.label("runaway_limit:%s" % limit)
        if has_tp and not feu_fix:
            out.nontrivial = all_suppressed and bool(fixable_live)
            if out.nontrivial:
                out.label("suppressed-error+fix-available")
        out.info = {"tp": tp_full, "suppression": supp, "fixable_live": len(fixable_live)}

        # control for the loop-limit clause: what a generous loop makes of the file (unfiltered is fine: these
        # scenarios carry no noqa on lint rules)
        control = None
        lint_noqa = any(r is None or set(r) - {"PRS", "TMP"} for _, _, r in directives)
        if limit and not has_tp and not lint_noqa:
            g10 = guard(C.ground_truth, case, runaway_limit=10)
            if not isinstance(g10, Crash) and g10.get("fixed") is not None:
                control = g10["fixed"]

        def judge(entry, text, rc, extra, cmd, with_fixes=None):
            feu = feu_fix and cmd != "format"
            sig = dict(entry=entry, suppression=supp, all_suppressed=all_suppressed, tree=gt["tree"])
            if extra:
                out.fail("%s left extra files %s" % (entry, extra), kind="extra-files", **sig)
            if text is None:
                out.fail("%s modified the file named by --stdin-filename" % entry, kind="stdin-wrote-file", **sig)
                return
            if has_tp:
                if cmd == "format" and feu_fix:
                    out.label("not-judged:format+fix_even_unparsable")
                    return
                if not feu:
                    if text != sql:
                        out.fail("%s changed a file that has %s (suppression: %s): %r -> %r" % (entry, tp_full, supp, sql[:200], text[:200]),
                                 kind="modified", **sig)
                elif text != sql:
                    out.label("control:changed-with-fix_even_unparsable")
                return
            if limit:
                if text != sql:
                    ok = guard(self._stable, case, text, cmd)
                    if ok is False:
                        out.fail("%s with runaway_limit=%s wrote a half-fixed file (a second fix changes it again): %r -> %r"
                                 % (entry, limit, sql[:200], text[:200]), kind="loop-partial", entry=entry, limit=limit)
                elif control is not None and control != sql:
                    out.label("loop-limit-hit")
                    out.nontrivial = True
                    if rc is not None and rc != 1 and cmd == "fix" and fixable_or_any_live:
                        out.fail("%s with runaway_limit=%s left the file unchanged (a generous loop changes it) but exits %s"
                                 % (entry, limit, rc), kind="loop-not-reported", entry=entry, limit=limit)
                    if with_fixes:
                        out.fail("lint_paths with runaway_limit=%s rolled the file back but still reports %d violations "
                                 "with fixes" % (limit, with_fixes), kind="loop-fixes-kept", entry=entry, limit=limit)

        # live lint violations (any): after a rollback they are all unfixable, so fix must exit 1
        fixable_or_any_live = any(not C.is_tmp_prs(v) and v["code"] != "LXR" and C.suppression(v, eff, directives) is None
                                  for v in vs)

        handles = [self._start_entry(case, e) for e in (case.get("entries") or ["fix-path", "fix-stdin"])]
        api_fix = guard(self._api_fix, case)  # in-process work while the subprocesses run
        api_paths = guard(self._api_paths, case, feu_fix)
        finished = []
        try:
            for h in handles:
                finished.append((h[0],) + self._finish_entry(h))
        finally:
            for h in handles:
                if h[4] is not None:
                    h[4].kill()
                h[2].cleanup()
        for entry, text, rc, extra, so, se in finished:
            if C.is_traceback(se) or C.is_traceback(so) or rc not in (0, 1):
                out.label("cli-abnormal:%s:rc%s" % (entry, rc))
                out.excluded = "cli-abnormal(C04/C22)"
                if text is not None and text != sql and has_tp and not feu_fix:
                    out.fail("%s ended abnormally (rc %s) and changed the file" % (entry, rc), kind="modified", entry=entry,
                             suppression=supp, all_suppressed=all_suppressed, tree=gt["tree"], abnormal=True)
                continue
            out.label("entry:" + entry)
            judge(entry, text, rc, extra, "format" if entry.startswith("format") else "fix")

        r = api_fix
        if isinstance(r, Crash):
            out.label("api-crash:%s" % r.type)
            out.excluded = "crash(C04):%s@%s" % (r.type, r.frame)
        else:
            out.label("entry:api-simple-fix")
            judge("api-simple-fix", r, None, [], "fix")
        r = api_paths
        if isinstance(r, Crash):
            out.label("api-crash:%s" % r.type)
            out.excluded = "crash(C04):%s@%s" % (r.type, r.frame)
        else:
            out.label("entry:api-lint_paths")
            judge("api-lint_paths", r[0], None, r[2], "fix", with_fixes=r[1])
        return out


CHECK = C18()
