"""C19 All entry points agree (path / stdin with --stdin-filename / Python API)."""
import json
import os

from vlib import clilib as C
from vlib.framework import Check, Outcome
from vlib.sf import Crash, guard

INLINE_KEY = {
    "rules:capitalisation.keywords:capitalisation_policy:lower": "inline:ruleopt",
}


def scenario(pick):
    sql, names, hkind, jinja = C.content(pick, errors="some", noqa="some", inline=True, max_parts=3)
    cfg = C.core_cfg(pick, feu=True, runaway=False, disable_noqa=True, templater_jinja=jinja)
    case = {"sql": sql, "fname": "q.sql", "cfg": cfg, "pieces": names}
    shape = pick.choice(["flat", "flat", "nested", "nested", "cli"])
    if shape == "nested":
        case["fname"] = "sub/q.sql"
        case["sub"] = C.sub_cfg(pick)
        if pick.chance(1, 4):
            case["subrulecfg"] = {"capitalisation.keywords": {"capitalisation_policy": pick.choice(["lower", "upper"])}}
    elif shape == "cli":
        k = pick.choice(["rules", "exclude_rules", "dialect", "rules+exclude_rules"])
        cli = {}
        if "rules" in k.split("+"):
            cli["rules"] = pick.choice([r for r in C.RULE_SETS if r])
        if "exclude_rules" in k.split("+"):
            cli["exclude_rules"] = pick.choice([e for e in C.EXCLUDES if e])
        if k == "dialect":
            cli["dialect"] = pick.choice(C.DIALECTS)
        case["cli"] = cli
    if pick.chance(1, 6):
        case["rulecfg"] = {"capitalisation.keywords": {"capitalisation_policy": pick.choice(["lower", "upper"])}}
    return case


def inline_directives(sql):
    return [ln[len("-- sqlfluff:"):].strip() for ln in sql.split("\n") if ln.startswith("-- sqlfluff:")]


def config_trigger(case):
    """Which configuration feature of the scenario an entry point could mishandle (coarse, for signatures)."""
    inl = inline_directives(case["sql"])
    if inl:
        d = inl[0]
        return INLINE_KEY.get(d) or ("inline:ruleopt" if d.count(":") > 1 else "inline:" + d.split(":")[0])
    if case.get("sub") is not None and case.get("fname", "").startswith("sub/"):
        return "nested"
    if any((case.get("cli") or {}).get(k) for k in ("rules", "exclude_rules", "dialect")):
        return "cli-opts"
    return "plain"


def vkey(rec):
    return (rec["code"], rec["start_line_no"], rec["start_line_pos"], rec["description"], bool(rec.get("warning")))


def diff(a, b):
    a, b = sorted(set(a)), sorted(set(b))
    only_a = [x[:3] for x in a if x not in b][:4]
    only_b = [x[:3] for x in b if x not in a][:4]
    return "only first: %s; only second: %s" % (only_a, only_b)


class C19(Check):
    id = "C19"
    level = "exploration"
    rule = (
        "Scenario = one SQL file composed from pieces of known class (clean / fixable / multi-pass fixable / unfixable / "
        "PRS with and without tree / TMP, TMP+PRS, fatal TMP), optional noqa comments and (one file in four) an in-file "
        "'-- sqlfluff:' directive (rules, exclude_rules, rule option, warnings, ignore, dialect); project config drawn "
        "from dialect, templater, rules, exclude_rules, warnings, ignore, fix_even_unparsable, disable_noqa, rule options; "
        "shape flat / nested (file in sub/ with its own sub/.sqlfluff) / command-line options (--rules, --exclude-rules, "
        "--dialect = API keyword arguments). Every file is linted three ways - 'lint --format json PATH', "
        "'lint --format json - --stdin-filename PATH' (content piped), sqlfluff.lint (config_path + keyword arguments when "
        "flat, FluffConfig.from_path of the file's directory when nested) - and fixed three ways - 'fix PATH' (file "
        "content), 'fix - --stdin-filename PATH' (stdout), sqlfluff.fix (return value). CLI runs are real subprocesses, "
        "cwd = fresh project directory. Oracle (differential, path is the reference): same set of (code, line, position, "
        "description, warning); where the violations agree, same fixed text and same exit status for lint and fix "
        "(path vs stdin). Not compared: file path label, human formatting, timing. Non-trivial: the path run reports a "
        "violation or changes the file, and the scenario has a configuration feature beyond one flat file (in-file "
        "directive, nested config, command-line options), a TMP/PRS error, or lint violations that are all suppressed or all warnings. Distinct = SHA-1 of the case."
    )
    assumptions = [
        "An API caller who wants 'the same configuration' for a file in a nested directory builds it with "
        "FluffConfig.from_path(directory of the file); for a flat project passes config_path=<root>/.sqlfluff.",
        "Exceptions escaping the API are C04's business (counted as excluded here), not a disagreement.",
    ]
    shrink_budget = 6

    def selftest(self):
        C.selftest_models()
        assert config_trigger({"sql": "-- sqlfluff:rules:CP01\nSELECT 1\n"}) == "inline:rules"
        assert config_trigger({"sql": "-- sqlfluff:rules:capitalisation.keywords:capitalisation_policy:lower\n"}) == "inline:ruleopt"
        assert config_trigger({"sql": "SELECT 1\n", "sub": {"rules": "x"}, "fname": "sub/q.sql"}) == "nested"
        assert config_trigger({"sql": "SELECT 1\n", "cli": {"rules": "LT01"}}) == "cli-opts"
        assert config_trigger({"sql": "SELECT 1\n"}) == "plain"
        r = {"code": "LT01", "start_line_no": 1, "start_line_pos": 2, "description": "d", "warning": False, "name": "n"}
        assert vkey(r) == ("LT01", 1, 2, "d", False)
        assert "only first: [('LT01', 1, 2)]" in diff([vkey(r)], [])

    def strategy(self, tier):
        return C.scenarios(scenario)

    def examples(self, tier):
        return 4 if tier == "quick" else 200

    def budget_s(self, tier):
        return 600.0 if tier == "quick" else 1700.0

    # ------------------------------------------------------------------ entry points

    def _api(self, case, pr, fix):
        import sqlfluff

        cli = case.get("cli") or {}
        nested = case.get("sub") is not None and case.get("fname", "").startswith("sub/")
        fn = sqlfluff.fix if fix else sqlfluff.lint
        if nested or cli.get("ignore") or cli.get("disable_noqa"):
            cfg = C.file_config(pr)
            if len(case["sql"]) % 3 == 0:
                # a Python user re-using one config object: another string with in-file directives (core and nested
                # rule options) is linted first; the object must come out unchanged
                fn("-- sqlfluff:rules:capitalisation.keywords:capitalisation_policy:lower\n"
                   "-- sqlfluff:rules:layout.long_lines:ignore_comment_lines:True\n-- sqlfluff:max_line_length:30\nSELECT 1\n",
                   config=cfg)
            return fn(case["sql"], config=cfg)
        kw = {"config_path": os.path.join(pr.root, ".sqlfluff")}
        if cli.get("dialect"):
            kw["dialect"] = cli["dialect"]
        if cli.get("rules"):
            kw["rules"] = cli["rules"].split(",")
        if cli.get("exclude_rules"):
            kw["exclude_rules"] = cli["exclude_rules"].split(",")
        return fn(case["sql"], **kw)

    def run_case(self, case):
        C.prepare_inprocess()
        out = Outcome()
        sql = case["sql"]
        eff = C.effective(case)
        for d in inline_directives(sql):  # in-file core settings take part in the classification (labels, signatures)
            if d.count(":") == 1:
                eff[d.split(":")[0]] = d.split(":")[1]
        directives = C.parse_noqa(sql)
        trig = config_trigger(case)
        feu = bool(eff.get("fix_even_unparsable"))
        gt = guard(C.ground_truth, case)
        if isinstance(gt, Crash) or gt.get("missing"):
            out.excluded = "crash(C04):ground-truth"
            return out
        tp_full = C.tp_state(gt["violations"], eff, directives)
        tp = tp_full.split(":")[0].split("(")[0]
        has_tmp = "TMP" in tp_full
        ls = C.lint_state(gt["violations"], eff, directives)
        out.label("trigger:" + trig, "tp:" + tp, "lint:" + ls.split("(")[0])
        if feu:
            out.label("fix_even_unparsable")
        opts = C.cli_opts(case)
        obs = {}
        # ---- four CLI runs side by side (each on its own project copy), the API in-process meanwhile
        fargs = ["fix"] + opts
        with C.Project(case, "l") as pl, C.Project(case, "f") as pf, C.Project(case, "s") as ps:
            # In half of the cases the path run gets a second, comment-only file of the same directory *before* the
            # target (a path run over several files shares one runner): per-file state such as in-file directives
            # must still be the target's own.
            lint_paths_args = [pl.fname]
            if len(sql) % 2 == 0:
                sib = os.path.join(os.path.dirname(pl.fname), "aa_sibling.sql")
                with open(os.path.join(pl.root, sib), "w") as fh:
                    fh.write("-- sibling\n")
                lint_paths_args = [sib, pl.fname]
                out.label("path-run-with-sibling")
            jobs = {
                "lint-path": C.CliJob(["lint", "--format", "json"] + opts + lint_paths_args, pl.root),
                "lint-stdin": C.CliJob(["lint", "--format", "json"] + opts + ["-", "--stdin-filename", pl.fname], pl.root,
                                       stdin=pl.data),
                "fix-path": C.CliJob(fargs + [pf.fname], pf.root),
                "fix-stdin": C.CliJob(fargs + ["-", "--stdin-filename", ps.fname], ps.root, stdin=ps.data),
            }
            api_l = guard(self._api, case, pl, False)
            api_f = guard(self._api, case, pl, True)
            for k, j in jobs.items():
                obs[k] = j.result()
            fixed_path = pf.read().decode("utf-8", "replace")
            untouched = ps.read() == ps.data and pl.read() == pl.data
        viol = {}
        for k in ("lint-path", "lint-stdin"):
            rc, so, se = obs[k]
            if C.is_traceback(se) or rc not in (0, 1):
                out.label("cli-abnormal:%s:rc%s" % (k, rc))
                viol[k] = None
                continue
            try:
                recs = json.loads(so)
                viol[k] = [vkey(v) for r in recs for v in r["violations"]]
            except Exception:
                viol[k] = None
                out.label("cli-json-unreadable:" + k)
        if viol["lint-path"] is None:
            if viol["lint-stdin"] is not None:
                out.fail("lint PATH ended abnormally (rc %s) but lint - worked: %s" % (obs["lint-path"][0], obs["lint-path"][2][-200:]),
                         pair="path-stdin", aspect="abnormal", trigger=trig, tp=tp)
            else:
                out.excluded = "cli-abnormal(C04/C22)"
            return out
        ref = viol["lint-path"]
        agree_stdin = agree_api = False
        if viol["lint-stdin"] is None:
            out.fail("lint - ended abnormally (rc %s) but lint PATH worked: %s" % (obs["lint-stdin"][0], obs["lint-stdin"][2][-200:]),
                     pair="path-stdin", aspect="abnormal", trigger=trig, tp=tp)
        elif sorted(ref) != sorted(viol["lint-stdin"]):
            out.fail("lint PATH vs lint - --stdin-filename: " + diff(ref, viol["lint-stdin"]),
                     pair="path-stdin", aspect="violations", trigger=trig, tp=tp)
        else:
            agree_stdin = True
        if isinstance(api_l, Crash):
            out.label("api-crash:" + api_l.type)
            out.excluded = "crash(C04):%s@%s" % (api_l.type, api_l.frame)
        elif sorted(ref) != sorted(vkey(v) for v in api_l):
            out.fail("lint PATH vs sqlfluff.lint: " + diff(ref, [vkey(v) for v in api_l]),
                     pair="path-api", aspect="violations", trigger=trig, tp=tp)
        else:
            agree_api = True
        if agree_stdin and obs["lint-path"][0] != obs["lint-stdin"][0]:
            out.fail("lint exit status: path %s, stdin %s" % (obs["lint-path"][0], obs["lint-stdin"][0]),
                     pair="path-stdin", aspect="exit", command="lint", trigger=trig, tp=tp,
                     path_rc=obs["lint-path"][0], stdin_rc=obs["lint-stdin"][0])
        # ---- fix, three ways
        rc_p, so_p, se_p = obs["fix-path"]
        rc_s, so_s, se_s = obs["fix-stdin"]
        abnormal_p = C.is_traceback(se_p) or rc_p not in (0, 1)
        abnormal_s = C.is_traceback(se_s) or rc_s not in (0, 1)
        if fixed_path != sql:
            out.label("fix-changed-file")
        out.nontrivial = bool(ref or fixed_path != sql) and (
            trig != "plain" or tp != "none" or ls.startswith("warning-only") or ls.startswith("suppressed-only"))
        if not untouched:
            out.fail("a stdin run (lint - / fix -) modified the file named by --stdin-filename", pair="path-stdin", aspect="stdin-wrote-file",
                     trigger=trig, tp=tp)
        if abnormal_p or abnormal_s:
            out.label("cli-abnormal:fix")
            if abnormal_p != abnormal_s:
                out.fail("fix ended abnormally on one input only: path rc %s, stdin rc %s; %s" % (rc_p, rc_s, (se_p + se_s)[-200:]),
                         pair="path-stdin", aspect="abnormal", command="fix", trigger=trig, tp=tp)
            return out
        if agree_stdin:
            if so_s != fixed_path:
                out.fail("fixed text differs: file after 'fix PATH' %r vs stdout of 'fix -' %r" % (fixed_path[:150], so_s[:150]),
                         pair="path-stdin", aspect="fixed", trigger=trig, tp=tp, lint=ls, feu=feu,
                         path_changed=fixed_path != sql, other_changed=so_s != sql)
            if rc_p != rc_s:
                out.fail("fix exit status: path %s, stdin %s (TMP/PRS: %s)" % (rc_p, rc_s, tp_full),
                         pair="path-stdin", aspect="exit", command="fix", trigger=trig, tp=tp, lint=ls, tmp=has_tmp, feu=feu,
                         path_rc=rc_p, stdin_rc=rc_s)
        if isinstance(api_f, Crash):
            out.label("api-crash:" + api_f.type)
            out.excluded = "crash(C04):%s@%s" % (api_f.type, api_f.frame)
        elif agree_api and api_f != fixed_path:
            out.fail("fixed text differs: file after 'fix PATH' %r vs sqlfluff.fix %r" % (fixed_path[:150], api_f[:150]),
                     pair="path-api", aspect="fixed", trigger=trig, tp=tp, lint=ls, feu=feu,
                     path_changed=fixed_path != sql, other_changed=api_f != sql)
        return out


CHECK = C19()
