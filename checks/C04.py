"""C04 Parse, lint and fix never crash."""
import os
import shutil
import subprocess
import sys
import tempfile

from hypothesis import strategies as st

from vlib import gens, lintlib
from vlib.framework import Check, Outcome
from vlib.sf import Crash, guard, structural

CLI_CMDS = ["lint", "fix", "format", "parse", "render"]


class C04(Check):
    id = "C04"
    level = "exploration"
    rule = (
        "Domain: a fixed, seed-independent backbone (fixture slice of every dialect, fixed mutants, fixed generated templates/queries, stress inputs) plus Hypothesis-chosen fixtures (unmutated / with 1-3 drawn mutation "
        "operators), arbitrary Unicode and SQL-ish text, generated valid queries, generated jinja (incl. undefined "
        "variables), python-format (incl. invalid strings) and placeholder templates, stress inputs (bracket/CASE/"
        "function/subquery nesting to depth 700 quick / 3000 thorough, unbalanced brackets, wide select lists, long "
        "operator chains, with default and small max_parse_depth / max_parse_nodes) x rule selections x rule options x "
        "lint and fix, through Linter.lint_string, Linter.parse_string, sqlfluff.lint/fix/parse (simple API) and a "
        "Hypothesis-drawn ~3% sample through the CLI (lint/fix/format/parse/render on a path and on stdin). Oracle: no "
        "exception escapes (APIParsingError from sqlfluff.parse is its documented result); CLI exit status in {0,1} "
        "and no Traceback on stderr; when no tree was produced a TMP/LXR/PRS violation is present; inputs beyond the "
        "configured depth/node limit report the limit as PRS. Signature = exception type + innermost sqlfluff frame. "
        "Non-trivial: the case produced a TMP, LXR or PRS violation, or hit a parse limit, or ran in fix mode and "
        "changed the text; distinct by SHA-1."
    )
    assumptions = ["configurations are valid ones: a config sqlfluff rejects with SQLFluffUserError is a usage error "
                   "(C22), counted as excluded"]

    def pinned(self, tier):
        for c in lintlib.pinned_lint_cases(tier, per_dialect=3, mutants_per_dialect=4, templates=100, salt=4):
            o = c.get("origin", "")
            c["entry"] = "all" if o.startswith("fixed") and o != "fixed-gsql" else ("api" if o == "fixed-gsql" else "lint_string")
            yield c
        for kind in ("brackets", "unbalanced", "case", "subquery", "functions"):
            for n_, limits in ((12, {}), (45, {}), (400, {}), (650, {}), (1500, {}), (100, {"max_parse_depth": 20}),
                               (300, {"max_parse_nodes": 100})):
                if tier == "quick" and n_ > 700:
                    continue
                yield {"dialect": "ansi", "templater": "raw", "sql": lintlib.stress_sql(kind, n_), "rules": "core", "entry": "all",
                       "rule_options": {}, "fix": False, "limits": limits, "origin": "stress:" + kind, "stress_n": n_}

    def strategy(self, tier):
        return st.tuples(lintlib.lint_domain(tier), st.integers(0, 35), st.sampled_from(CLI_CMDS), st.booleans(),
                         st.sampled_from(["lint_string", "lint_string", "parse_string", "api"])).map(
            lambda t: dict(t[0], cli=(t[2] if t[1] == 0 else None), stdin=t[3], entry=t[4]))

    def examples(self, tier):
        return 35 if tier == "quick" else 1500

    def run_case(self, case):
        import sqlfluff
        from sqlfluff.core import Linter

        out = Outcome(labels=["templater:" + case.get("templater", "raw"), "fix" if case.get("fix") else "lint"])
        if str(case.get("origin", "")).startswith("stress"):
            out.label(case["origin"])
        entry = case.get("entry", "all")
        res, cfg, _internal = lintlib.lint(case) if entry in ("lint_string", "all") else (None, lintlib.config_for(case), [])
        if res is None:
            pass
        elif isinstance(res, Crash):
            if getattr(res, "config_error", False):
                out.excluded = "config-rejected"
                return out
            if res.type == "SQLFluffSkipFile":
                out.excluded = "templater-skipped-file"
                return out
            out.fail(repr(res), entry="lint_string", exc=res.type, frame=res.frame)
        else:
            sv = structural(res.violations)
            if sv:
                out.nontrivial = True
                out.label("has-" + "/".join(sorted({v.rule_code() for v in sv})))
            if any("exceeded" in (v.desc() or "") for v in sv):
                out.label("limit-hit")
            if res.tree is None and not sv:
                exc, why = self.why_silent(case, cfg)
                out.fail("no tree and no TMP/LXR/PRS violation: " + why, entry="lint_string", exc=exc, frame=why)
            if case.get("fix") and res.tree is not None:
                fx = guard(res.fix_string)
                if isinstance(fx, Crash):
                    out.fail(repr(fx), entry="fix_string", exc=fx.type, frame=fx.frame)
                elif fx[1]:
                    out.nontrivial = True
                    out.label("fix-changed")
        # parse entry point
        if entry in ("parse_string", "all"):
            lnt = Linter(config=cfg)
            ps = guard(lnt.parse_string, case["sql"])
            if isinstance(ps, Crash) and ps.type != "SQLFluffSkipFile":
                out.fail(repr(ps), entry="parse_string", exc=ps.type, frame=ps.frame)
            elif not isinstance(ps, Crash):
                if ps.violations:
                    out.nontrivial = True
                if not any(v.tree is not None for v in ps.parsed_variants) and not ps.violations:
                    exc, why = self.why_silent(case, cfg)
                    out.fail("no tree and no TMP/LXR/PRS violation: " + why, entry="parse_string", exc=exc, frame=why)
        # simple API
        for name, fn in (("api.lint", sqlfluff.lint), ("api.fix", sqlfluff.fix), ("api.parse", sqlfluff.parse)):
            if entry not in ("api", "all"):
                break
            if (name == "api.fix") != bool(case.get("fix")) and name != "api.parse":
                continue
            r = guard(fn, case["sql"], config=cfg)
            if isinstance(r, Crash) and r.type not in ("APIParsingError", "SQLFluffSkipFile"):
                out.fail(repr(r), entry=name, exc=r.type, frame=r.frame)
        if case.get("cli") and case.get("templater", "raw") == "raw":
            self.run_cli(out, case)
        return out

    @staticmethod
    def why_silent(case, cfg):
        """Was the file silently skipped by the templater (SQLFluffSkipFile is only logged)?"""
        import re

        from sqlfluff.core import Linter

        lnt = Linter(config=cfg)
        src = Linter._normalise_newlines(case["sql"])
        r = guard(lambda: list(lnt.templater.process_with_variants(in_str=src, fname="t.sql", config=cfg, formatter=None)))
        if isinstance(r, Crash) and r.type == "SQLFluffSkipFile":
            # the three consistency checks of TemplatedFile.__init__ are one root cause: the templater produced
            # slices that do not tile its own output
            if any(k in r.msg for k in ("Length of templated file mismatch", "Templated slices found to be non-contiguous",
                                        "First Templated slice not started at index")):
                return "silent-skip", "templated-file-consistency"
            return "silent-skip", re.sub(r"[0-9]+", "N", r.msg)[:48]
        return "silent-no-tree", "-"

    def run_cli(self, out, case):
        out.label("cli:" + case["cli"])
        d = tempfile.mkdtemp(dir=os.environ.get("VERIF_SCRATCH"))
        try:
            cmd = [sys.executable, "-m", "sqlfluff", case["cli"], "--dialect", case["dialect"]]
            if case["cli"] in ("lint", "fix"):
                cmd += ["--rules", case.get("rules") or "all"]
            data = None
            if case.get("stdin"):
                cmd += ["-"]
                data = case["sql"].encode("utf8", "surrogatepass")
            else:
                with open(os.path.join(d, "q.sql"), "w", encoding="utf8", newline="") as fh:
                    fh.write(case["sql"])
                cmd += ["q.sql"]
            p = subprocess.run(cmd, cwd=d, input=data, capture_output=True, env=os.environ, timeout=600)
            err = p.stderr.decode("utf8", "replace")
            if "Traceback (most recent call last)" in err:
                last = [l for l in err.strip().splitlines() if l.strip()][-1]
                frames = [l for l in err.splitlines() if "/sqlfluff/" in l and "line" in l]
                fr = frames[-1].split("/sqlfluff/", 1)[1].split('"')[0] + ":" + frames[-1].rsplit(" in ", 1)[-1].strip() if frames else "?"
                out.fail(last[:200], entry="cli." + case["cli"], exc=last.split(":")[0][:40], frame=fr)
            elif p.returncode not in (0, 1):
                out.fail(f"exit {p.returncode}: {err[-200:]}", entry="cli." + case["cli"], exc="exit-%d" % p.returncode, frame="-")
            elif "internal error" in err or "internal error" in p.stdout.decode("utf8", "replace"):
                out.fail("runner swallowed an internal error: " + err[-200:], entry="cli." + case["cli"], exc="swallowed", frame="-")
        finally:
            shutil.rmtree(d, ignore_errors=True)


CHECK = C04()
