"""C30 Edits are applied to disjoint source ranges exactly once."""
import itertools

from hypothesis import strategies as st

from vlib import gens
from vlib.framework import Check, Outcome
from vlib.sf import Crash, guard, mkcfg

SRC6 = "abcdef"


# --------------------------------------------------------------------------- reference model (from the statement)


def overlaps(p, q):
    """Do two *distinct* edits (start, stop, text) compete for the same source?

    Same range (necessarily different text), ranges sharing at least one character, or an insertion point
    strictly inside the other edit's range.  Touching ranges and an insertion at either end of a range do not.
    """
    (s1, e1, _), (s2, e2, _) = p, q
    if (s1, e1) == (s2, e2):
        return True
    if s1 == e1:
        return s2 < s1 < e2
    if s2 == e2:
        return s1 < s2 < e1
    return max(s1, s2) < min(e1, e2)


def apply_model(src, patches):
    """Apply pairwise non-overlapping edits: the only way characters may change."""
    out = []
    pos = 0
    for s, e, t in sorted(patches, key=lambda p: (p[0], p[1])):
        if s < pos:
            return None
        out.append(src[pos:s])
        out.append(t)
        pos = e
    out.append(src[pos:])
    return "".join(out)


def admissible_results(src, uniq):
    """{result string: subset} for every subset S of the distinct edits that is pairwise non-overlapping and
    contains every edit that overlaps no other edit."""
    uniq = sorted(uniq)
    n = len(uniq)
    conf = [[overlaps(uniq[i], uniq[j]) if i != j else False for j in range(n)] for i in range(n)]
    must = [i for i in range(n) if not any(conf[i])]
    opt = [i for i in range(n) if any(conf[i])]
    res = {}
    for r in range(len(opt) + 1):
        for extra in itertools.combinations(opt, r):
            if any(conf[a][b] for a, b in itertools.combinations(extra, 2)):
                continue
            S = [uniq[i] for i in must] + [uniq[i] for i in extra]
            text = apply_model(src, S)
            assert text is not None
            res.setdefault(text, S)
    return res


def so_precondition(uniq, so):
    """Source-only slices are non-empty, sorted, disjoint; every edit either equals one or stays clear of all."""
    prev = 0
    for a, b in so:
        if not (prev <= a < b):
            return "so-slices-malformed"
        prev = b
    for s, e, _ in uniq:
        for a, b in so:
            if (s, e) == (a, b):
                continue
            if (s == e and a < s < b) or (s != e and max(s, a) < min(e, b)):
                return "edit-overlaps-source-only-slice(C10)"
    return None


# --------------------------------------------------------------------------- code under test


def run_pipeline(src, buffers, so):
    from sqlfluff.core.linter.linted_file import LintedFile
    from sqlfluff.core.linter.patch import FixPatch, merge_source_patches
    from sqlfluff.core.templaters.base import RawFileSlice

    bufs = [[FixPatch(slice(s, e), t, "literal", slice(s, e), src[s:e], src[s:e]) for s, e, t in buf] for buf in buffers]
    merged = merge_source_patches(bufs)
    so_slices = [RawFileSlice(src[a:b], "comment", a) for a, b in so]
    slices = LintedFile._slice_source_file_using_patches(merged, so_slices, src)
    fixed = LintedFile._build_up_fixed_source_string(slices, merged, src)
    return fixed, merged, slices


def all_patches(n, maxlen=3, texts=("X", "")):
    return [(s, e, t) for s in range(n + 1) for e in range(s, min(n, s + maxlen) + 1) for t in texts
            if not (s == e and t == "")]


def so_configs(n, maxlen=3, upto=2):
    ranges = [(a, b) for a in range(n) for b in range(a + 1, min(n, a + maxlen) + 1)]
    out = [[]]
    if upto >= 1:
        out += [[r] for r in ranges]
    if upto >= 2:
        out += [[r1, r2] for r1, r2 in itertools.combinations(ranges, 2) if r1[1] <= r2[0]]
    return out


def assignments(k):
    """Variant-buffer index of each patch; the first patch is in buffer 0 (ordered tuples cover the mirror)."""
    return [(0,) + rest for rest in itertools.product((0, 1), repeat=k - 1)]


class C30(Check):
    id = "C30"
    thorough_pinned = True  # full thorough enumeration observed quiet on the unchanged tree
    level = "exploration"
    rule = (
        "Pipeline: merge_source_patches(buffers) -> LintedFile._slice_source_file_using_patches -> "
        "_build_up_fixed_source_string. (1) Exhaustive, seed-independent: source 'abcdef', every ORDERED tuple (with "
        "repetition, so duplicates across variants occur) of <=3 edits (start 0..6, length <=3, text 'X' or ''), every "
        "split of the tuple over two variant buffers, with no source-only slice and with the slices (2,4) and (3,4); "
        "plus every ordered tuple of <=2 edits with every set of <=2 disjoint source-only slices of length <=3 "
        "(thorough: <=3 edits x every such set).  A pinned case is one chunk (all tuples with a given first edit); the "
        "number of oracle evaluations is reported as oracle_evaluations.  (2) Hypothesis: sources of 1-30 characters, "
        "<=8 edits with 0-3 character replacements over <=3 buffers, <=4 source-only slices, edits biased to touch / "
        "nest / coincide.  (3) Patch buffers captured from real fixes of generated Jinja/python/placeholder templates "
        "(what Linter.lint_parsed hands to merge_source_patches) with the file's real source-only slices, compared "
        "with LintedFile.fix_string (a captured edit whose source range runs backwards or leaves the file is a failure "
        "by itself: finding F-C30-a).  Oracle (model written from the statement): the output equals the reference "
        "application of a subset S of the distinct edits that is pairwise non-overlapping and contains every edit "
        "that overlaps no other.  Edits overlap when they have the same range, share a character, or one is an "
        "insertion strictly inside the other.  Combinations in which an edit partly overlaps a source-only slice are "
        "outside the domain (C10 decides whether such edits can arise) and counted as excluded.  Non-trivial: at "
        "least two distinct edits that overlap or touch, or a duplicate edit, or a source-only slice next to an edit; "
        "distinct by SHA-1 of the case."
    )
    assumptions = [
        "source-only slices are non-empty, sorted and disjoint, and an edit either coincides with one or does not "
        "overlap any (generate_source_patches' filter; judged by C10)",
        "which of two conflicting edits survives is not prescribed",
    ]
    shrink_fields = ("sql",)

    def selftest(self):
        gens.tame_tqdm()
        assert overlaps((1, 3, "X"), (2, 4, "X")) and overlaps((2, 2, "X"), (1, 3, ""))
        assert overlaps((2, 2, "X"), (2, 2, "Y")) and overlaps((1, 3, "X"), (1, 3, ""))
        assert not overlaps((1, 3, "X"), (3, 4, "X")) and not overlaps((1, 1, "X"), (1, 3, ""))
        assert not overlaps((3, 3, "X"), (1, 3, ""))
        assert apply_model("abcdef", [(4, 5, ""), (1, 1, "X"), (1, 3, "Y")]) == "aXYdf"
        assert apply_model("abcdef", [(1, 3, "Y"), (2, 4, "")]) is None
        r = admissible_results("abcdef", {(0, 1, "X"), (2, 4, "Y"), (3, 5, "Z")})
        assert set(r) == {"XbYef", "XbcZf", "Xbcdef"}, r
        assert so_precondition({(2, 3, "X")}, [(2, 4)]) and not so_precondition({(2, 4, "X"), (4, 4, "Y")}, [(2, 4)])
        # the model must reject the classic failure shapes
        assert "aXXbcdef" not in admissible_results("abcdef", {(1, 1, "X")})

    # ------------------------------------------------------------------ domain

    def pinned(self, tier):
        pats = all_patches(len(SRC6))
        three = [[], [(2, 4)], [(3, 4)]] if tier == "quick" else so_configs(len(SRC6))
        for so in three:
            for first in pats:
                yield {"kind": "enum", "src": SRC6, "so": so, "first": list(first), "k": 3}
        if tier == "quick":
            for so in so_configs(len(SRC6)):
                if so in three:
                    continue
                yield {"kind": "enum", "src": SRC6, "so": so, "first": None, "k": 2}
        # hand-made corner cases (explicit)
        yield {"kind": "explicit", "src": SRC6, "buffers": [[[1, 1, "X"]], [[1, 1, "X"]]], "so": []}
        yield {"kind": "explicit", "src": SRC6, "buffers": [[[2, 5, "X"], [2, 2, "Y"]]], "so": []}
        yield {"kind": "explicit", "src": SRC6, "buffers": [[[1, 3, "X"]], [[3, 4, "Y"]], [[3, 3, "Z"]]], "so": [[4, 6]]}

    def strategy(self, tier):
        @st.composite
        def synth(draw):
            n = draw(st.integers(1, 30))
            src = "".join(chr(97 + i % 26) for i in range(n))
            npat = draw(st.integers(1, 8))
            pts = draw(st.lists(st.integers(0, n), min_size=2, max_size=6))  # shared end points => touching/nesting
            pats = []
            for _ in range(npat):
                if pats and draw(st.integers(0, 5)) == 0:
                    p = list(draw(st.sampled_from(pats)))
                    if draw(st.booleans()):
                        p[2] = draw(st.sampled_from(["X", "Y", ""]))
                    if p[0] == p[1] and p[2] == "":
                        p[2] = "X"
                    pats.append(p)
                    continue
                a = draw(st.sampled_from(pts)) if draw(st.booleans()) else draw(st.integers(0, n))
                b = draw(st.sampled_from(pts)) if draw(st.booleans()) else min(n, a + draw(st.integers(0, 5)))
                a, b = min(a, b), max(a, b)
                t = draw(st.sampled_from(["X", "Y", "", "ZZ", "abc", " "]))
                if a == b and not t:
                    t = "X"
                pats.append([a, b, t])
            nbuf = draw(st.integers(1, 3))
            buffers = [[] for _ in range(nbuf)]
            for p in pats:
                buffers[draw(st.integers(0, nbuf - 1))].append(p)
            so = []
            pos = 0
            for _ in range(draw(st.integers(0, 4))):
                if draw(st.booleans()) and pats:
                    p = draw(st.sampled_from(pats))
                    a, b = p[0], p[1]
                else:
                    a = draw(st.integers(pos, n))
                    b = a + draw(st.integers(1, 4))
                if pos <= a < b <= n:
                    so.append([a, b])
                    pos = b
            # keep most cases inside the domain: an edit that partly overlaps a source-only slice is snapped onto it
            # or clipped in front of it (one case in eight is left as drawn, so the exclusion path stays exercised)
            if so and draw(st.integers(0, 7)):
                for buf in buffers:
                    for p in buf:
                        for a, b in so:
                            s_, e_ = p[0], p[1]
                            if (s_, e_) == (a, b):
                                continue
                            if (s_ == e_ and a < s_ < b) or (s_ != e_ and max(s_, a) < min(e_, b)):
                                if draw(st.booleans()):
                                    p[0], p[1] = a, b
                                else:
                                    p[0], p[1] = min(s_, a), min(e_, a)
                                    if p[0] == p[1] and not p[2]:
                                        p[2] = "X"
            return {"kind": "explicit", "src": src, "buffers": buffers, "so": so}

        real = gens.template_fix_case().map(lambda c: dict(c, kind="real"))
        return st.integers(0, 39).flatmap(lambda k: real if k == 0 else synth())

    def examples(self, tier):
        return 1250 if tier == "quick" else 120000

    # ------------------------------------------------------------------ oracle

    def judge(self, out, src, buffers, so, fixed=None, where="synthetic"):
        """One oracle evaluation; returns True when the combination was inside the domain."""
        uniq = {tuple(p) for buf in buffers for p in buf}
        pre = so_precondition(uniq, so)
        if pre:
            out.excluded = pre
            return False
        merged = slices = None
        if fixed is None:
            r = guard(run_pipeline, src, buffers, so)
            if isinstance(r, Crash):
                out.fail(f"{r!r} src={src!r} buffers={buffers} so={so}", clause="exception", exc=r.type, frame=r.frame,
                         where=where)
                return True
            fixed, merged, slices = r
        adm = admissible_results(src, uniq)
        if fixed not in adm:
            kind = classify(src, uniq, fixed, adm)
            out.fail(
                f"src={src!r} buffers={buffers} so={so} -> {fixed!r}; admissible={sorted(adm)[:6]} "
                f"merged={[(m.source_slice.start, m.source_slice.stop, m.fixed_raw) for m in merged] if merged is not None else '-'} "
                f"slices={[(s.start, s.stop) for s in slices] if slices is not None else '-'}",
                clause="model", kind=kind, where=where, so=bool(so))
        return True

    def run_case(self, case):
        out = Outcome()
        kind = case["kind"]
        if kind == "enum":
            return self.run_enum(case, out)
        if kind == "real":
            return self.run_real(case, out)
        src, buffers, so = case["src"], case["buffers"], [tuple(x) for x in case["so"]]
        out.label("generated/explicit")
        if not self.judge(out, src, buffers, so):
            return out
        out.nontrivial = interesting({tuple(p) for b in buffers for p in b}, sum(len(b) for b in buffers), so)
        if out.nontrivial:
            out.label("explicit:interacting")
        if len(buffers) > 1:
            out.label("explicit:multi-variant")
        if so:
            out.label("explicit:has-source-only")
        return out

    def run_enum(self, case, out):
        src, so, k = case["src"], [tuple(x) for x in case["so"]], case["k"]
        pats = all_patches(len(src))
        firsts = [tuple(case["first"])] if case["first"] is not None else pats
        n = nex = 0
        for first in firsts:
            for extra_len in range(0, k):
                for rest in itertools.product(pats, repeat=extra_len):
                    tup = (first,) + rest
                    for asg in assignments(len(tup)):
                        buffers = [[list(p) for p, a in zip(tup, asg) if a == 0], [list(p) for p, a in zip(tup, asg) if a == 1]]
                        if not buffers[1]:
                            buffers = buffers[:1]
                        sub = Outcome()
                        if self.judge(sub, src, buffers, so, where="exhaustive"):
                            n += 1
                        else:
                            nex += 1
                        if sub.fails and len(out.fails) < 3:
                            out.fails.extend(sub.fails)
        out.label("enum-chunk", f"n-evals={n}", f"n-excluded-overlap-source-only={nex}")
        out.nontrivial = True
        out.info = {"oracle_evaluations": n, "outside_domain": nex}
        return out

    def run_real(self, case, out):
        """Patch buffers captured from a real fix, judged against fix_string's output."""
        import sqlfluff.core.linter.linter as linter_mod
        from sqlfluff.core import Linter

        gens.tame_tqdm()
        out.label("real-fix", "real:" + case.get("templater", "raw"))
        captured = []
        orig = linter_mod.merge_source_patches

        def recorder(buffers):
            captured.append([[(p.source_slice.start, p.source_slice.stop, p.fixed_raw) for p in b] for b in buffers])
            return orig(buffers)

        try:
            cfg = mkcfg(dialect=case.get("dialect", "ansi"), templater=case.get("templater", "raw"),
                        context=case.get("context"), param_style=case.get("param_style"), dotted=case.get("dotted"),
                        rules=case.get("rules", "all"))
        except Exception:
            out.excluded = "config-rejected"
            return out
        linter_mod.merge_source_patches = recorder
        try:
            lf = guard(Linter(config=cfg).lint_string, case["sql"], fix=True)
        finally:
            linter_mod.merge_source_patches = orig
        if isinstance(lf, Crash):
            out.excluded = "crash(C04):" + lf.type
            return out
        if not captured or lf.tree is None or lf.templated_file is None:
            out.excluded = "no-fix-attempted"
            return out
        res = guard(lf.fix_string)
        if isinstance(res, Crash):
            out.excluded = "crash(C04):" + res.type
            return out
        fixed, _ = res
        buffers = [[list(p) for p in b] for b in captured[-1]]
        so = [(s.source_idx, s.source_idx + len(s.raw)) for s in lf.templated_file.source_only_slices() if s.raw]
        src = lf.templated_file.source_str
        uniq = {tuple(p) for b in buffers for p in b}
        inverted = sorted(p for p in uniq if p[0] > p[1])
        if inverted:
            # an edit whose source range runs backwards: the slicer steps back to its stop and emits text twice
            out.label("real:inverted-range-patch")
            dup = "; output repeats source text" if len(fixed) > len(src) + sum(len(t) for _, _, t in uniq) else ""
            out.fail(f"captured patch with start > stop: {inverted} among {sorted(uniq)}{dup}; source={src!r} fixed={fixed!r}",
                     clause="real-patch-inverted-range", where="real")
            return out
        if any(not (0 <= s <= e <= len(src)) for s, e, _ in uniq):
            out.fail(f"captured patch out of bounds: {sorted(uniq)} len={len(src)}", clause="real-patch-bounds",
                     where="real")
            return out
        if len([p for p in uniq if any(overlaps(p, q) for q in uniq if q != p)]) > 14:
            out.excluded = "too-many-conflicting-edits-for-the-model"
            return out
        if self.judge(out, src, buffers, so, fixed=fixed, where="real"):
            out.label("real:%d-variants" % min(len(buffers), 3))
            if uniq:
                out.label("real:has-edits")
            if len(uniq) < sum(len(b) for b in buffers):
                out.label("real:duplicate-across-variants")
            if any(overlaps(p, q) for p, q in itertools.combinations(sorted(uniq), 2)):
                out.label("real:conflicting-edits")
            out.nontrivial = interesting(uniq, sum(len(b) for b in buffers), so)
        return out

    def finish(self, tier, merged):
        n = nex = 0
        for lab, cnt in merged["labels"].items():
            if lab.startswith("n-evals="):
                n += int(lab.split("=")[1]) * cnt
            elif lab.startswith("n-excluded-overlap-source-only="):
                nex += int(lab.split("=")[1]) * cnt
        n += merged["labels"].get("generated/explicit", 0) + merged["labels"].get("real-fix", 0)
        return {"exhaustive": True, "oracle_evaluations": n, "exhaustive_combinations_outside_domain": nex,
                "exhaustive_scope": "source 'abcdef'; ordered tuples (with repetition) of <=3 edits x all 2-buffer splits "
                                    "x source-only {none,(2,4),(3,4)}" + (
                                        "; <=2 edits x all <=2 disjoint source-only slices" if tier == "quick"
                                        else " and all sets of <=2 disjoint source-only slices of length <=3")}

    def budget_s(self, tier):
        return 200.0 if tier == "quick" else 1700.0


def interesting(uniq, total, so):
    uniq = sorted(uniq)
    if len(uniq) < total:
        return True
    for p, q in itertools.combinations(uniq, 2):
        if overlaps(p, q) or p[1] == q[0] or q[1] == p[0]:
            return True
    for s, e, _ in uniq:
        for a, b in so:
            if (s, e) == (a, b) or s == b or e == a:
                return True
    return False


def classify(src, uniq, fixed, adm):
    """Coarse kind of a model failure (for the signature)."""
    uniq = sorted(uniq)
    # equals the application of some non-overlapping subset that omits an unconflicted edit?
    for r in range(len(uniq) + 1):
        for S in itertools.combinations(uniq, r):
            if any(overlaps(a, b) for a, b in itertools.combinations(S, 2)):
                continue
            if apply_model(src, S) == fixed:
                return "unconflicted-edit-dropped"
        if r > 6:
            break
    if len(fixed) > max(len(t) for t in adm):
        return "applied-twice-or-text-duplicated"
    return "partial-or-overlapping-application"


CHECK = C30()
