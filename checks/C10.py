"""C10 Fixes never edit template code."""
import re
from collections import Counter

from hypothesis import strategies as st

from vlib import gens
from vlib.framework import Check, Outcome, digest
from vlib.sf import Crash, guard, mkcfg

_TAG = re.compile(r"(\{[{%#][-+]?)(.*?)([-+]?[}%#]\})", re.S)


def template_items(tf):
    """T(src): ordered non-literal raw slices (tags, expressions, template comments, fields, parameters)."""
    return [(rs.slice_type, rs.raw, rs.source_idx) for rs in tf.raw_sliced if rs.slice_type != "literal"]


def jj01_norm(raw):
    """A tag modulo whitespace immediately inside its delimiters (what JJ01 is allowed to change)."""
    m = _TAG.fullmatch(raw)
    if not m:
        return raw
    return m.group(1) + m.group(2).strip() + m.group(3)


def ordered_scan(fixed, items, alt=None):
    """Index of the first item that cannot be found (each one searched after the previous match), or None.
    With `alt` (JJ01 selected) a tag matches with any whitespace immediately inside its delimiters."""
    pos = 0
    for i, raw in enumerate(items):
        m = _TAG.fullmatch(raw) if alt else None
        if m:
            rx = re.compile(re.escape(m.group(1)) + r"\s*" + re.escape(m.group(2).strip()) + r"\s*" + re.escape(m.group(3)))
            mm = rx.search(fixed, pos)
            if not mm:
                return i
            pos = mm.end()
            continue
        j = fixed.find(raw, pos)
        if j < 0:
            return i
        pos = j + len(raw)
    return None


def edit_kind(orig, new):
    """deleted | altered | reordered | duplicated (orig/new: lists of tag strings)."""
    co, cn = Counter(orig), Counter(new)
    if co == cn:
        return "reordered"
    missing = co - cn
    extra = cn - co
    if missing and not extra:
        return "deleted"
    if extra and not missing:
        return "duplicated" if all(k in co for k in extra) else "added"
    return "altered"


def first_diff_kind(orig_items, new):
    for i, (typ, raw, _) in enumerate(orig_items):
        if i >= len(new) or new[i] != raw:
            return typ
    return "extra"


PINNED = [
    ("  {{ a }}", "all"), (" {{- a }} ", "all"), ("\n  {{- a }}\n", "all"), ("  {%- if flag %}select 1{% endif %}\n", "all"),
    ("  {#- c #}select 1\n", "all"), ("select 1  {{- a }}\n", "all"), ("select\n    1  {#- c -#}  \n", "all"),
    ("SELECT {{a}}  ,{{  b  }} from t\n", "all"), ("SELECT {{a}}  ,{{  b  }} from t\n", "jinja"),
    ("select a from t {% if flag %}where x=1{% endif %}\n", "layout"),
    ("{% for i in [1,2] %}select {{i}} {% if not loop.last %}union all{% endif %} {% endfor %}\n", "all"),
    ("select a,{# c #}b from t\n", "all"), ("{% set v %}a,b{% endset %}select {{ v }} from t\n", "all"),
    ("select 1 {%- if false %} , 2 {%- endif %}\n", "all"), ("    {%+ if flag -%}  select  1 {%- endif +%}  \n\n\n", "all"),
    ("{{ a }}\n\n\n", "LT12,LT13"), ("\n\n{# c #}\n\nselect 1", "LT12,LT13"), ("select 1 {# c #}", "LT12"),
    ("select 1 {% if flag %}{% endif %}   ", "all"),
]

# Systematic family: every kind of template tag next to every kind of whitespace a layout rule removes or rewrites
# (trailing blanks at end of line, surplus blank lines at end of file, leading indent, double blanks inside a line).
_TAGS = ["{# note #}", "{#- note -#}", "{{ a }}", "{{- a -}}", "{% set v = 1 %}", "{% if flag %}{% endif %}",
         "{% if flag %}x{% else %}y{% endif %}", "{% for i in items %}{% endfor %}", "{%- set w = 2 -%}"]
_SHAPES = ["SELECT a FROM t {tag}  \nWHERE a = 1\n", "SELECT a FROM t\n{tag}\n\n\n", "{tag}  \nSELECT a FROM t\n",
           "SELECT a,   {tag}   b FROM t\n", "SELECT a FROM t\n  {tag}   \n   \n", "SELECT a FROM t {tag}\n\n\n\n",
           "    {tag}\nSELECT a FROM t  \n"]
PINNED += [(shape.replace("{tag}", tag), rules) for tag in _TAGS for shape in _SHAPES for rules in ("all", "layout")]


class C10(Check):
    id = "C10"
    level = "exploration"
    rule = (
        "Domain: generated Jinja templates (gens.template_fix_case: JinjaGen realistic profile with literals that "
        "violate layout/capitalisation/convention rules; grammar-directed SELECT/FROM/WHERE templates with tags wrapped "
        "around items and conditions; hand-shaped dbt-like models with loops, loop.last commas, if/elif/else, macros, "
        "set blocks, template comments, whitespace control and random tag padding; noise is applied to literal SQL "
        "only), python-format templates and placeholder templates in every param style, plus pinned templater "
        "fixtures; rule selection 'all', each rule group and a few single rules; optional indentation config; fixed "
        "through Linter.lint_string(fix=True) (all rendering variants, merged patches) -> LintedFile.fix_string, and "
        "through fix_string's root-variant-only path. Oracle: T(src) = ordered non-literal raw slices of the original "
        "(raw_sliced types templated/block_*/comment/escaped = tags, expressions, template comments, fields, "
        "parameters). (a) each string of T(src) occurs in the fixed source, in order; (b) re-slicing the fixed source "
        "with the same templater yields exactly T(src) (so nothing is deleted, altered, reordered, duplicated or "
        "newly looks like template code). When JJ01 is selected, tags are compared modulo whitespace immediately inside "
        "their delimiters. Non-trivial: the fix changed the file and an applied patch touches a tag or lies on the "
        "same source line as one; distinct by SHA-1 of the case."
    )
    assumptions = [
        "the templater's raw_sliced of the ORIGINAL file identifies template code (C07 judges the slicers)",
        "literal text inside unrendered blocks (macro / set bodies) is not template code in the statement's sense",
    ]

    def selftest(self):
        gens.tame_tqdm()
        assert jj01_norm("{{-  a }}") == "{{-a}}" and jj01_norm("{%+ if x   -%}") == "{%+if x-%}"
        assert jj01_norm("{#  c #}") == "{#c#}" and jj01_norm(":name") == ":name"
        assert ordered_scan("x {{ a }} y {{ b }}", ["{{ a }}", "{{ b }}"]) is None
        assert ordered_scan("x {{ b }} y {{ a }}", ["{{ a }}", "{{ b }}"]) == 1
        assert ordered_scan("{-  a }}", ["{{-  a }}"]) == 0
        assert ordered_scan("{{- a }}", ["{{-  a }}"], alt=["{{-a}}"]) is None
        assert ordered_scan("{{- b }}", ["{{-  a }}"], alt=["{{-a}}"]) == 0
        # JJ01 re-pads the first of two identical tags: the scan must not jump to the second, unpadded one
        assert ordered_scan("{% elif x %} {{ b }} {%elif x %}", ["{%elif x %}", "{{ b }}", "{%elif x %}"], alt=[1, 1, 1]) is None
        assert ordered_scan("{% elif x %} {{ b }}", ["{%elif x %}", "{{ b }}", "{%elif x %}"], alt=[1, 1, 1]) == 2
        assert edit_kind(["a", "b"], ["b", "a"]) == "reordered" and edit_kind(["a", "b"], ["a"]) == "deleted"
        assert edit_kind(["a"], ["a", "a"]) == "duplicated" and edit_kind(["a"], ["c"]) == "altered"
        assert edit_kind(["a"], ["a", "z"]) == "added"

    def pinned(self, tier):
        for sql, rules in PINNED:
            yield {"dialect": "ansi", "templater": "jinja", "sql": sql, "context": dict(gens.JCTX), "rules": rules,
                   "shape": "pinned"}
        for r in gens.templater_corpus():
            if len(r["sql"]) < (700 if tier == "quick" else 3000):
                yield {"dialect": "ansi", "templater": "jinja", "sql": r["sql"], "context": dict(gens.JCTX),
                       "rules": "all", "shape": "fixture"}

    def strategy(self, tier):
        ind = st.sampled_from([None, None, None, {"indent_unit": "tab"}, {"template_blocks_indent": False},
                               {"tab_space_size": 2}, {"indented_joins": True, "indented_ctes": True}])
        return st.tuples(gens.template_fix_case(), ind).map(
            lambda t: dict(t[0], **({"indentation": t[1]} if t[1] else {})))

    def examples(self, tier):
        return 45 if tier == "quick" else 3500

    # ------------------------------------------------------------------

    def _cfg(self, case, rules=None):
        return mkcfg(dialect=case.get("dialect", "ansi"), templater=case.get("templater", "raw"),
                     context=case.get("context"), param_style=case.get("param_style"), dotted=case.get("dotted"),
                     rule_configs={"indentation": case["indentation"]} if case.get("indentation") else None,
                     rules=rules or case.get("rules", "all"))

    def _judge(self, linter, cfg, orig_items, fixed, jj01):
        """Return None or (clause, edit, tagkind, detail)."""
        raws = [r for _, r, _ in orig_items]
        alt = [jj01_norm(r) for r in raws] if jj01 else None
        miss = ordered_scan(fixed, raws, alt)
        if miss is not None:
            typ, raw, idx = orig_items[miss]
            later = raw in fixed
            return ("a-in-order", "reordered" if later else "altered-or-deleted", typ,
                    f"tag #{miss} {raw!r} (source offset {idx}) not found in order in the fixed source")
        rr = guard(linter.render_string, fixed, "t.sql", cfg, "utf8")
        if isinstance(rr, Crash):
            return ("b-rerender", "broken", "n/a", f"fixed source no longer renders: {rr!r}")
        if not rr.templated_variants:
            return ("b-rerender", "broken", "n/a",
                    "fixed source no longer renders: " + "; ".join(str(e.desc())[:80] for e in rr.templater_violations[:2]))
        new = [r for _, r, _ in template_items(rr.templated_variants[0])]
        a, b = ([jj01_norm(r) for r in raws], [jj01_norm(r) for r in new]) if jj01 else (raws, new)
        if a != b:
            return ("b-reslice", edit_kind(a, b), first_diff_kind([(t, (jj01_norm(r) if jj01 else r), i)
                                                                   for t, r, i in orig_items], b),
                    f"template items changed: {raws} -> {new}")
        return None

    def _culprit(self, patches, orig_items):
        """Category / position of the first applied patch that partly overlaps template code."""
        for p in patches or []:
            if p.source_slice.start > p.source_slice.stop:
                return "inverted-range", "interior"
        for p in patches or []:
            s, e = p.source_slice.start, p.source_slice.stop
            for typ, raw, idx in orig_items:
                a, b = idx, idx + len(raw)
                if (s, e) == (a, b):
                    continue
                if (s == e and a < s < b) or (s != e and max(s, a) < min(e, b)):
                    return p.patch_category, ("file-start" if s == 0 else "interior")
        return "none", "n/a"

    _memo = {}

    def run_case(self, case):
        # identical Hypothesis examples are answered from a per-process memo (a fix costs about a second)
        gens.tame_tqdm()
        key = digest(case)
        hit = self._memo.get(key)
        if hit is not None:
            return hit
        out = self._run_case(case)
        if len(self._memo) < 5000:
            self._memo[key] = out
        return out

    def _run_case(self, case):
        from sqlfluff.core import Linter

        out = Outcome()
        templater = case.get("templater", "jinja")
        out.label("templater:" + templater, "rules:" + case.get("rules", "all"), "shape:" + case.get("shape", "?"))
        try:
            cfg = self._cfg(case)
            linter = Linter(config=cfg)
        except Exception:
            out.excluded = "config-rejected"
            return out
        lf = guard(linter.lint_string, case["sql"], fix=True)
        if isinstance(lf, Crash):
            out.excluded = "crash(C04):" + lf.type
            return out
        if lf.templated_file is None or lf.tree is None:
            out.excluded = "no-rendering-or-tree(TMP)"
            return out
        tf = lf.templated_file
        src = tf.source_str
        orig_items = template_items(tf)
        if not orig_items:
            out.excluded = "no-template-code"
            return out
        jj01 = templater == "jinja" and any(r.code == "JJ01" for r in linter.get_rulepack(cfg).rules)
        results = []
        r1 = guard(lf.fix_string)
        if isinstance(r1, Crash):
            out.excluded = "crash(C04):" + r1.type
            return out
        results.append(("merged-variants", r1[0]))
        patches = list(lf.source_patches or [])
        r2 = guard(lf._replace(source_patches=None).fix_string)
        if not isinstance(r2, Crash) and r2[0] != r1[0]:
            results.append(("root-variant-only", r2[0]))
            out.label("root-only-path-differs")
        changed = r1[0] != src
        if changed:
            out.label("fix-changed-file")
        if any(v.rule_code() == "PRS" for v in lf.violations):
            out.label("has-PRS")
        if len(set(t for t, _, _ in orig_items)) > 1:
            out.label("has-block-tags")
        # adjacency (non-trivial rule)
        touching = sameline = False
        for p in patches:
            s, e = p.source_slice.start, p.source_slice.stop
            for _, raw, idx in orig_items:
                a, b = idx, idx + len(raw)
                if s <= b and e >= a:
                    touching = True
                lo, hi = min(s, a), max(e, b)
                if "\n" not in src[lo:hi]:
                    sameline = True
        if changed and touching:
            out.label("patch-touches-tag")
        if changed and sameline:
            out.label("patch-on-tag-line")
        out.nontrivial = changed and (touching or sameline)
        if jj01 and any(p.patch_category == "source" for p in patches):
            out.label("source-patch(JJ01/indent)")

        for path, fixed in results:
            if fixed == src:
                continue
            verdict = self._judge(linter, cfg, orig_items, fixed, jj01)
            if verdict is None:
                continue
            clause, edit, tagkind, detail = verdict
            if path == "merged-variants":
                plist = patches
            else:
                from sqlfluff.core.linter.patch import generate_source_patches

                plist = guard(generate_source_patches, lf.tree, tf)
                plist = [] if isinstance(plist, Crash) else plist
            patch_cat, at = self._culprit(plist, orig_items)
            rule = self._bisect(case, lf, orig_items, jj01)
            out.fail(f"[{path}] {detail}; source={src[:200]!r} fixed={fixed[:200]!r}", clause=clause, templater=templater,
                     tagkind=tagkind, edit=edit, rule=rule, patch=patch_cat, at=at, path=path,
                     rules=case.get("rules", "all"))
        return out

    def _bisect(self, case, lf, orig_items, jj01):
        """Which single rule reproduces the damage on its own (or 'combination')."""
        from sqlfluff.core import Linter

        codes = sorted({v.rule_code() for v in lf.violations if v.rule_code() not in ("PRS", "TMP", "LXR")})
        hits = []
        for code in codes[:14]:
            try:
                cfg = self._cfg(case, rules=code)
                linter = Linter(config=cfg)
            except Exception:
                continue
            lf1 = guard(linter.lint_string, case["sql"], fix=True)
            if isinstance(lf1, Crash) or lf1.tree is None or lf1.templated_file is None:
                continue
            r = guard(lf1.fix_string)
            if isinstance(r, Crash) or r[0] == lf1.templated_file.source_str:
                continue
            if self._judge(linter, cfg, orig_items, r[0], jj01 and code == "JJ01") is not None:
                hits.append(code)
        return hits[0] if len(hits) == 1 else ("+".join(hits) if hits else "combination")

    def budget_s(self, tier):
        return 240.0 if tier == "quick" else 1700.0


CHECK = C10()
