"""C23 Reported violation positions are accurate."""
import json
import os
import re
import shutil
import subprocess
import sys
import tempfile

from hypothesis import strategies as st

from vlib import gens, lintlib
from vlib.framework import Check, Outcome
from vlib.sf import Crash
from vlib.tmap import slicemap_problems

FORMATS = ["json", "yaml", "github-annotation", "github-annotation-native", "sarif"]


def line_col(text, off):
    return text.count("\n", 0, off) + 1, off - (text.rfind("\n", 0, off) + 1) + 1


def pos_problems(d, src, what):
    """Check one serialised position dict (violation or fix) against the source text."""
    probs = []
    lines = src.split("\n")
    ln, lp = d["start_line_no"], d["start_line_pos"]
    if not (1 <= ln <= len(lines)) or not (1 <= lp <= len(lines[ln - 1]) + 1):
        probs.append((what + "-out-of-file", f"{what} at line {ln} col {lp}; file has {len(lines)} lines"
                      + (f", line length {len(lines[ln - 1])}" if 1 <= ln <= len(lines) else "")))
    if "start_file_pos" in d:
        s = d["start_file_pos"]
        if not (0 <= s <= len(src)):
            probs.append((what + "-offset-out-of-file", f"start_file_pos {s} not in [0,{len(src)}]"))
        elif line_col(src, s) != (ln, lp):
            probs.append((what + "-offset-vs-linecol", f"start_file_pos {s} is {line_col(src, s)} but line/col says {(ln, lp)}"))
        if "end_file_pos" in d:
            e = d["end_file_pos"]
            if not (s <= e <= len(src)):
                probs.append((what + "-end-out-of-file", f"end_file_pos {e} (start {s}, file length {len(src)})"))
            elif line_col(src, e) != (d.get("end_line_no"), d.get("end_line_pos")):
                probs.append((what + "-end-offset-vs-linecol",
                              f"end_file_pos {e} is {line_col(src, e)} but end line/col says {(d.get('end_line_no'), d.get('end_line_pos'))}"))
    return probs


class C23(Check):
    id = "C23"
    level = "exploration"
    rule = (
        "Domain: as C04 without stress inputs: fixtures of every dialect unmutated/mutated, text, generated queries, "
        "generated jinja/python/placeholder templates x rule selections x options, linted with Linter.lint_string; a "
        "Hypothesis-drawn ~5% of raw cases also through `sqlfluff lint --format json|yaml|github-annotation|"
        "github-annotation-native|sarif`. Oracle on every violation (filtered and unfiltered lists) and every fix dict: "
        "line in [1, #source lines], column in [1, len(line)+1]; start/end offsets inside the file, start<=end, and "
        "line_col(source, offset) == reported line/col (reference line_col from the statement); for a violation whose "
        "segment is literal, non-empty and not edited, source[start:end] == segment.raw and the reported line/col is "
        "that of its first character; serialised formats carry the same (code, line, col, end line, end col) as "
        "to_dict(). Non-trivial: at least one violation with a position was checked on a templated or multi-line file; "
        "distinct by SHA-1."
    )

    def selftest(self):
        assert line_col("ab\ncd", 3) == (2, 1) and line_col("ab\ncd", 2) == (1, 3)

    def pinned(self, tier):
        for i, c in enumerate(lintlib.pinned_lint_cases(tier, per_dialect=3, mutants_per_dialect=3, templates=100, salt=23,
                                                        fix_mode=False)):
            if c.get("templater", "raw") != "raw" and i % 2:
                # also report violations in templated areas (they are dropped by default)
                c["limits"] = {"ignore_templated_areas": False}
            yield c
        for i, r in enumerate(gens.templater_corpus()):
            if len(r["sql"]) < 700:
                yield {"dialect": "ansi", "templater": "jinja", "sql": r["sql"], "context": dict(gens.JCTX), "rules": "all",
                       "rule_options": {}, "fix": False, "origin": "templater-fixture"}

    def strategy(self, tier):
        return st.tuples(lintlib.lint_domain(tier, with_stress=False), st.integers(0, 19), st.sampled_from(FORMATS),
                         st.booleans()).map(
            lambda t: dict(t[0], fix=False, cli_format=(t[2] if t[1] == 0 else None),
                           **({"limits": {"ignore_templated_areas": False}} if t[3] and t[0].get("templater", "raw") != "raw" else {})))

    def examples(self, tier):
        return 35 if tier == "quick" else 1500

    def run_case(self, case):
        templater = case.get("templater", "raw")
        out = Outcome(labels=["templater:" + templater])
        res, cfg, _ = lintlib.lint(case, fix=False)
        if isinstance(res, Crash):
            out.excluded = "config-rejected" if getattr(res, "config_error", False) else "crash(C04):" + res.type
            return out
        if res.templated_file is None:
            src = re.sub(r"\r\n|\r", "\n", case["sql"])
        else:
            src = res.templated_file.source_str
            if slicemap_problems(res.templated_file):
                out.excluded = "source-map-inconsistent(C07)"
                return out
            if templater == "jinja":
                # violations are collected from every rendering variant: a variant whose own source map is
                # inconsistent (C07's finding) yields positions that cannot be right
                from sqlfluff.core import Linter
                from vlib.sf import guard

                rend = guard(Linter(config=cfg).render_string, case["sql"], "t.sql", cfg, "utf8")
                if not isinstance(rend, Crash) and any(slicemap_problems(tf) for tf in rend.templated_variants):
                    out.excluded = "variant-source-map-inconsistent(C07)"
                    return out
        seen = set()
        nchecked = 0
        for v in list(res.violations) + list(res.get_violations(filter_warning=False)):
            if id(v) in seen:
                continue
            seen.add(id(v))
            code = v.rule_code()
            d = v.to_dict()
            nchecked += 1
            for clause, detail in pos_problems(d, src, "violation"):
                out.fail(f"{code}: {detail}", clause=clause, rule=code, templated=templater != "raw",
                         nocol=d["start_line_pos"] == 0)
            for f in d.get("fixes", []) or []:
                for clause, detail in pos_problems(f, src, "fix"):
                    out.fail(f"{code}: {detail}", clause=clause, rule=code, templated=templater != "raw")
            seg = getattr(v, "segment", None)
            if seg is not None and seg.pos_marker is not None:
                pm = seg.pos_marker
                ss = pm.source_slice
                if 0 <= ss.start <= len(src) and line_col(src, ss.start) != (v.line_no, v.line_pos):
                    out.fail(f"{code}: reported {(v.line_no, v.line_pos)} but segment starts at offset {ss.start} = "
                             f"{line_col(src, ss.start)}", clause="linecol-vs-segment", rule=code, templated=templater != "raw")
                # (not for segments whose source range is shorter than their text: a literal segment that spans several
                # loop iterations revisits the same source by construction)
                if (pm.is_literal() and seg.raw and "start_file_pos" in d and "end_file_pos" in d
                        and ss.stop - ss.start >= len(seg.raw)
                        and res.tree is not None and 0 <= d["start_file_pos"] <= d["end_file_pos"] <= len(src)
                        and pm.templated_file is res.templated_file
                        and res.templated_file.templated_str[pm.templated_slice] == seg.raw):
                    got = src[d["start_file_pos"]:d["end_file_pos"]]
                    if got != seg.raw:
                        out.fail(f"{code}: source[{d['start_file_pos']}:{d['end_file_pos']}] = {got[:40]!r} but the code is "
                                 f"{seg.raw[:40]!r}", clause="literal-text", rule=code, templated=templater != "raw")
        if nchecked and (templater != "raw" or src.count("\n") >= 2):
            out.nontrivial = True
        if nchecked:
            out.label("has-violations")
        if case.get("cli_format") and templater == "raw" and case["sql"].strip():
            # (empty files are not compared: whether the CLI lints an empty file at all is an entry-point
            # question, C19's, not a position question)
            self.run_cli(out, case, res)
        return out

    def run_cli(self, out, case, res):
        import yaml

        fmt = case["cli_format"]
        out.label("cli:" + fmt)
        want = sorted((d["code"], d["start_line_no"], d["start_line_pos"], d.get("end_line_no"), d.get("end_line_pos"))
                      for d in (v.to_dict() for v in res.get_violations(filter_warning=False)))
        d = tempfile.mkdtemp(dir=os.environ.get("VERIF_SCRATCH"))
        try:
            with open(os.path.join(d, "q.sql"), "w", encoding="utf8", newline="") as fh:
                fh.write(case["sql"])
            cfgtxt = "[sqlfluff]\ndialect = %s\nrules = %s\nencoding = utf-8\n" % (case["dialect"], case.get("rules") or "all")
            # rule options are not replicated on the CLI side: only cases with default options are compared
            if case.get("rule_options"):
                return
            with open(os.path.join(d, ".sqlfluff"), "w") as fh:
                fh.write(cfgtxt)
            p = subprocess.run([sys.executable, "-m", "sqlfluff", "lint", "q.sql", "--format", fmt], cwd=d,
                               capture_output=True, env=os.environ, timeout=600)
            if p.returncode not in (0, 1):
                out.excluded = "cli-crash(C04)"
                return
            txt = p.stdout.decode("utf8", "replace")
            got = []
            try:
                if fmt in ("json", "yaml"):
                    doc = json.loads(txt) if fmt == "json" else yaml.safe_load(txt)
                    for rec in doc:
                        for v in rec["violations"]:
                            got.append((v["code"], v["start_line_no"], v["start_line_pos"], v.get("end_line_no"), v.get("end_line_pos")))
                elif fmt == "github-annotation":
                    for a in json.loads(txt):
                        code = a["message"].split(":")[0]
                        got.append((code, a["start_line"], a["start_column"], a["end_line"], a["end_column"]))
                    want = [(c, l, p_, el if el is not None else l, ep if ep is not None else p_) for c, l, p_, el, ep in want]
                elif fmt == "github-annotation-native":
                    for line in txt.splitlines():
                        m = re.match(r"::\w+ title=SQLFluff,file=[^,]*,line=(\d+),col=(\d+)(?:,endLine=(\d+))?(?:,endColumn=(\d+))?::(\w+):", line)
                        if m:
                            got.append((m.group(5), int(m.group(1)), int(m.group(2)), int(m.group(3)) if m.group(3) else None,
                                        int(m.group(4)) if m.group(4) else None))
                elif fmt == "sarif":
                    doc = json.loads(txt)
                    for r in doc["runs"][0]["results"]:
                        reg = r["locations"][0]["physicalLocation"]["region"]
                        got.append((r["ruleId"], reg["startLine"], reg["startColumn"], reg.get("endLine"), reg.get("endColumn")))
            except Exception as e:
                out.fail(f"cannot read {fmt} output: {e}", clause="serialised-unreadable", format=fmt)
                return
            if sorted(got, key=str) != sorted(want, key=str):
                missing = [w for w in want if w not in got][:2]
                extra = [g for g in got if g not in want][:2]
                out.fail(f"{fmt}: positions differ from to_dict(): missing {missing} extra {extra}", clause="serialised-differs",
                         format=fmt)
        finally:
            shutil.rmtree(d, ignore_errors=True)


CHECK = C23()
