"""C27 Configuration precedence and isolation."""
import json
import os
import posixpath

from hypothesis import strategies as st

from vlib.framework import Check, Outcome
from vlib.history import World, infra

# --------------------------------------------------------------------------- probe settings
# name -> (config path, candidate values, default as shipped).  Every probe is observable from outside (see BODY).
PROBES = {
    "dialect": (("core", "dialect"), ["ansi", "tsql", "mysql", "sqlite", "bigquery"], None),
    "templater": (("core", "templater"), ["raw", "jinja"], "jinja"),
    "max_line_length": (("core", "max_line_length"), [30, 40, 50, 60, 100], 80),
    "rules": (("core", "rules"), ["LT05,CP01", "core", "layout,capitalisation", "LT02,LT05,CP01,CP02,AL02", "all"], "all"),
    "exclude_rules": (("core", "exclude_rules"), ["CP01", "LT05", "LT02", "layout.long_lines,AL02", "capitalisation"], None),
    "kw_policy": (("rules", "capitalisation.keywords", "capitalisation_policy"),
                  ["upper", "lower", "capitalise", "consistent"], "consistent"),
    "id_policy": (("rules", "capitalisation.identifiers", "extended_capitalisation_policy"),
                  ["upper", "lower", "consistent"], "consistent"),
    "tab_space_size": (("indentation", "tab_space_size"), [2, 4, 8], 4),
    "indent_unit": (("indentation", "indent_unit"), ["space", "tab"], "space"),
    "ctx_pa": (("templater", "jinja", "context", "pa"), ["col_x", "ColY", "z9", 42], None),
    "ctx_pb": (("templater", "jinja", "context", "pb"), ["other_col", "Q", 7], None),
}
ROOT_ONLY = ("templater",)  # docs: the templater cannot be set below the working directory
CLI_KEYS = ("dialect", "rules", "exclude_rules", "templater")  # have a command line option
API_OVERRIDE_KEYS = CLI_KEYS + ("max_line_length",)  # `overrides=` only reaches the core section
RULE_CONFIG_KEYS = ("rules", "exclude_rules", "kw_policy", "id_policy")  # read when the rule pack is built (F-C19-a)
INI_NAMES = (".sqlfluff", "setup.cfg", "tox.ini", "pep8.ini")
DIRS = ["", "a", "a/b", "a/b/c", "d"]
READBACK = [list(PROBES[k][0]) for k in PROBES] + [["core", "rule_allowlist"], ["core", "rule_denylist"]]
LENGTHS = [30, 31, 40, 41, 50, 51, 60, 61, 80, 81, 100, 101]
EXTRA_LINES = ["SELECT a,b  FROM t;", "SELECT a FROM t AS u;", "SELECT t.a FROM t JOIN u ON t.a=u.a;"]
DIALECT_LINES = ["SELECT TOP 1 a FROM t;", "SELECT a FROM t LIMIT 1;", "SELECT `a` FROM t;", "SELECT a FROM t WHERE b ~ 'x';"]


# --------------------------------------------------------------------------- writing config sources


def render_ini(settings, noise=False):
    sections = {}
    for k, v in settings.items():
        path = PROBES[k][0]
        sec = "sqlfluff" if path[0] == "core" else "sqlfluff:" + ":".join(path[:-1])
        sections.setdefault(sec, []).append("%s = %s" % (path[-1], v))
    out = []
    if noise:
        out.append("[metadata]\nname = demo\n")
    for sec in sorted(sections):
        out.append("[%s]\n%s\n" % (sec, "\n".join(sections[sec])))
    if noise:
        out.append("[flake8]\nmax-line-length = 120\n")
    return "\n".join(out)


def render_toml(settings):
    sections = {}
    for k, v in settings.items():
        path = PROBES[k][0]
        sec = "tool.sqlfluff." + ".".join(path[:-1])
        sections.setdefault(sec, []).append("%s = %s" % (path[-1], json.dumps(v)))
    out = ["[project]\nname = \"demo\"\n"]
    for sec in sorted(sections):
        out.append("[%s]\n%s\n" % (sec, "\n".join(sections[sec])))
    return "\n".join(out)


def render_config(fmt, settings):
    if fmt == "pyproject.toml":
        return render_toml(settings)
    return render_ini(settings, noise=fmt in ("setup.cfg", "tox.ini"))


def inline_line(key, value, spaced=True):
    path = PROBES[key][0]
    addr = path[1:] if path[0] == "core" else path
    return "%ssqlfluff:%s:%s" % ("-- " if spaced else "--", ":".join(addr), value)


def file_text(f):
    """Inline directives are placed at the recorded slots between the statements of the body."""
    chunks = f["sql"].split("\n\n")
    by_slot = {}
    for key, value, spaced, slot in f["inline"]:
        by_slot.setdefault(min(slot, len(chunks)), []).append(inline_line(key, value, spaced))
    out = []
    for i, ch in enumerate(chunks):
        if i in by_slot:
            out.append("\n".join(by_slot[i]))
        out.append(ch)
    if len(chunks) in by_slot:
        out.append("\n".join(by_slot[len(chunks)]) + "\n")
    return "\n\n".join(out)


def neutralise(text):
    """Same text with the directives turned into ordinary comments of the same length (for the reference lint)."""
    return "\n".join(
        (ln.replace("sqlfluff", "sqlfluxx", 1) if ln.startswith(("-- sqlfluff", "--sqlfluff")) else ln)
        for ln in text.split("\n"))


def user_config_path(user):
    where = user["where"]
    base = {"home": "home", "appdir": "home/.config/sqlfluff", "xdg": "xdg/sqlfluff"}[where]
    return posixpath.join(base, user["fmt"])


def tree_of(case):
    tree = {}
    if case.get("user"):
        tree[user_config_path(case["user"])] = render_config(case["user"]["fmt"], case["user"]["set"])
    for d, spec in case["dirs"].items():
        tree[posixpath.join("proj", d, spec["fmt"])] = render_config(spec["fmt"], spec["set"])
    if case.get("extra"):
        tree[posixpath.join("extra", case["extra"]["fmt"])] = render_config(case["extra"]["fmt"], case["extra"]["set"])
    for f in case["files"]:
        tree[posixpath.join("proj", f["path"])] = file_text(f)
    return tree


CLI_FLAGS = {"dialect": "--dialect", "rules": "--rules", "exclude_rules": "--exclude-rules", "templater": "--templater"}


def cli_args(case, paths):
    args = ["lint", "--format", "json"]
    if case.get("extra"):
        args += ["--config", "../extra/" + case["extra"]["fmt"]]
    for k, v in (case.get("overrides") or {}).items():
        args += [CLI_FLAGS[k], str(v)]
    return args + list(paths)


def root_spec(case):
    return {"extra": ("../extra/" + case["extra"]["fmt"]) if case.get("extra") else None,
            "overrides": dict(case.get("overrides") or {})}


# --------------------------------------------------------------------------- the model (written from the statement)


def chain(path):
    d = posixpath.dirname(path)
    parts = d.split("/") if d else []
    return [""] + ["/".join(parts[: i + 1]) for i in range(len(parts))]


def sources(case, f, inline=True, root_only=False):
    """Sources that apply to file f, lowest precedence first: user config, directory configs from the working
    directory down to the file's directory, the explicitly supplied file, command line overrides, the file's own
    inline directives."""
    out = []
    if case.get("user"):
        out.append(("user", case["user"]["set"]))
    for d in ([""] if root_only else chain(f["path"])):
        if d in case["dirs"]:
            out.append(("dir:" + (d or "."), case["dirs"][d]["set"]))
    if case.get("extra"):
        out.append(("extra", case["extra"]["set"]))
    if case.get("overrides"):
        out.append(("override", case["overrides"]))
    if inline and f is not None:
        inl = {k: v for k, v, _, _ in f["inline"]}
        if inl:
            out.append(("inline", inl))
    return out


def effective(case, f, inline=True, root_only=False, drop_inline_keys=()):
    eff = {k: (PROBES[k][2], "default") for k in PROBES}
    for label, settings in sources(case, f, inline, root_only):
        for k, v in settings.items():
            if label == "inline" and k in drop_inline_keys:
                continue
            eff[k] = (v, label)
    return eff


def split_csv(v):
    return [s.strip() for s in str(v).split(",") if s.strip()] if v else []


def expected_readback(eff):
    vals = [eff[k][0] for k in PROBES]
    return vals + [split_csv(eff["rules"][0]), split_csv(eff["exclude_rules"][0])]


def model_render(text, eff):
    """Rendering of the probe references by the jinja templater when every referenced variable is defined."""
    out = text
    for var, key in (("pa", "ctx_pa"), ("pb", "ctx_pb")):
        if "{{ %s }}" % var in out:
            if eff[key][0] is None:
                return None
            out = out.replace("{{ %s }}" % var, str(eff[key][0]))
    return out


_REF_CACHE = {}


def norm_v(vs):
    """Parse errors quote (and truncate) the source text, which contains the directive lines that the reference
    lint sees neutralised: keep only the fixed part of such descriptions."""
    return [[c, ln, pos, d.split("Found unparsable section", 1)[0] + "Found unparsable section" if "Found unparsable section" in d else d]
            for c, ln, pos, d in vs]


def reference_lint(text, eff):
    """Lint the text with a config object built directly from the model's effective values (no files, no inline)."""
    from sqlfluff.core import FluffConfig, Linter

    key = json.dumps([text, {k: eff[k][0] for k in eff}], sort_keys=True)
    if key in _REF_CACHE:
        return _REF_CACHE[key]
    configs = {}
    for k, (v, _) in eff.items():
        if v is None:
            continue
        node = configs
        path = PROBES[k][0]
        for p in path[:-1]:
            node = node.setdefault(p, {})
        node[path[-1]] = v
    cfg = FluffConfig(configs=configs, ignore_local_config=True)
    lf = Linter(config=cfg).lint_string(neutralise(text))
    res = {"v": norm_v([[v.rule_code(), v.line_no, v.line_pos, v.desc()] for v in lf.get_violations()]),
           "rendered": lf.templated_file.templated_str if lf.templated_file is not None else None}
    if len(_REF_CACHE) > 500:
        _REF_CACHE.clear()
    _REF_CACHE[key] = res
    return res


# --------------------------------------------------------------------------- generator


def gen_body(rnd, jinja_refs, dialect):
    def kw(s):
        return rnd.choice([s.upper(), s.upper(), s.lower(), s.capitalize()])

    def ident(s):
        return rnd.choice([s, s, s.upper(), s.capitalize()])

    ind = rnd.choice(["    ", "    ", "  ", "\t", "        "])
    lines = [kw("select"), ind + ident("a") + ",", "%s%s %s c" % (ind, ident("b"), kw("as")), "%s %s" % (kw("from"), ident("tbl")),
             "%s %s = 1" % (kw("where"), ident("a"))]
    for n, ln in enumerate(sorted(rnd.sample(LENGTHS, rnd.randint(2, 5)))):
        prefix = ind + kw("and") + " "
        suffix = " = %d" % (n + 2)
        width = max(1, ln - len(prefix) - len(suffix))
        lines.append(prefix + rnd.choice("xyzw") * width + suffix)
    lines[-1] += ";"
    chunks = ["\n".join(lines)]
    if jinja_refs:
        chunks.append("%s {{ pa }} %s x%s %s t;" % (kw("select"), kw("as"), rnd.choice(["", ", {{ pb }} AS y"]), kw("from")))
    k = rnd.randint(1, 3) if dialect else rnd.randint(0, 1)
    for ln in rnd.sample(DIALECT_LINES, k):
        chunks.append(ln)
    if rnd.random() < 0.5:
        chunks.insert(rnd.randint(1, len(chunks)), rnd.choice(EXTRA_LINES))
    return "\n\n".join(chunks) + "\n"


def gen_case(rnd, kind):
    active = ["dialect"] + rnd.sample([k for k in PROBES if k not in ("dialect", "ctx_pa", "ctx_pb", "templater")], rnd.randint(2, 5))
    jinja = rnd.random() < 0.4
    if jinja:
        active += ["ctx_pa", "ctx_pb", "templater"] if rnd.random() < 0.5 else ["ctx_pa", "ctx_pb"]

    def settings(p, allowed=None, nested=False):
        out = {}
        for k in active:
            if allowed is not None and k not in allowed:
                continue
            if nested and k in ROOT_ONLY:
                continue
            if rnd.random() < p:
                out[k] = rnd.choice(PROBES[k][1])
        return out

    nfiles = rnd.randint(2, 3) if kind == "history" else rnd.randint(1, 4)
    files = []
    for i in range(nfiles):
        d = rnd.choice(DIRS)
        body = gen_body(rnd, jinja, "dialect" in active)
        nslots = len(body.split("\n\n"))
        inline = []
        if rnd.random() < 0.6:
            for k, v in settings(0.45, nested=True).items():
                inline.append([k, v, rnd.random() < 0.8, rnd.randint(0, nslots)])
        files.append({"path": posixpath.join(d, "f%d.sql" % i), "inline": inline, "sql": body})
    case = {"kind": kind, "user": None, "dirs": {}, "extra": None, "overrides": {}, "files": files}
    if rnd.random() < 0.5:
        case["user"] = {"where": rnd.choice(["home", "appdir", "xdg"]),
                        "fmt": rnd.choice(INI_NAMES + ("pyproject.toml",)), "set": settings(0.5)}
    on_chain = sorted({d for f in files for d in chain(f["path"])})
    for d in on_chain:
        if rnd.random() < (0.8 if d == "" else 0.55):
            # at most ONE config file per directory: the statement does not order file types inside a directory
            case["dirs"][d] = {"fmt": rnd.choice(INI_NAMES + ("pyproject.toml", ".sqlfluff")), "set": settings(0.5, nested=d != "")}
    if rnd.random() < 0.45:
        case["extra"] = {"fmt": rnd.choice(["custom.cfg", "pyproject.toml", ".sqlfluff"]), "set": settings(0.5)}
    if rnd.random() < 0.55:
        allowed = CLI_KEYS if rnd.random() < 0.6 else API_OVERRIDE_KEYS
        case["overrides"] = settings(0.6, allowed=allowed)
    # a dialect has to be known at the root (from_root requires it): make sure a root-level source sets one
    root_eff = effective(case, None, inline=False, root_only=True)
    if root_eff["dialect"][0] is None:
        val = rnd.choice(PROBES["dialect"][1])
        slot = rnd.choice(["user", "cwd", "extra", "override"])
        if slot == "user":
            if not case["user"]:
                case["user"] = {"where": rnd.choice(["home", "appdir", "xdg"]), "fmt": ".sqlfluff", "set": {}}
            case["user"]["set"]["dialect"] = val
        elif slot == "cwd":
            case["dirs"].setdefault("", {"fmt": ".sqlfluff", "set": {}})["set"]["dialect"] = val
        elif slot == "extra":
            if not case["extra"]:
                case["extra"] = {"fmt": "custom.cfg", "set": {}}
            case["extra"]["set"]["dialect"] = val
        else:
            case["overrides"]["dialect"] = val
    # drop empty config files
    case["dirs"] = {d: s for d, s in case["dirs"].items() if s["set"]}
    if case["user"] and not case["user"]["set"]:
        case["user"] = None
    if case["extra"] and not case["extra"]["set"]:
        case["extra"] = None
    paths = [f["path"] for f in files]
    if kind == "hierarchy":
        ops = [{"op": "config", "path": p} for p in paths]
        ops.append({"op": "lint", "paths": rnd.choice([paths, ["."], list(reversed(paths))])})
    else:
        pool = []
        for p in paths:
            pool += [{"op": "lint", "paths": [p]}, {"op": "config", "path": p},
                     {"op": "lint_string_file", "path": p, "via": "root"}, {"op": "lint_string_file", "path": p, "via": "child"}]
            if rnd.random() < 0.4:
                pool.append({"op": "parse", "path": p})
        pool += [{"op": "lint", "paths": paths}, {"op": "lint", "paths": ["."]}]
        dirs_used = sorted({posixpath.dirname(p) for p in paths} - {""})
        if dirs_used:
            pool.append({"op": "lint", "paths": [rnd.choice(dirs_used)]})
        rnd.shuffle(pool)
        ops = pool[: rnd.randint(7, 12)]
        # repeat some operations later in the history
        for _ in range(rnd.randint(1, 3)):
            ops.append(dict(rnd.choice(ops)))
        for op in ops:
            if op["op"] != "config":
                op["linter"] = "shared" if rnd.random() < 0.75 else "new"
        if set(case["overrides"]) <= set(CLI_KEYS) and rnd.random() < 0.8:
            # the same project through the real command line (a separate process started by the driver)
            ops.insert(rnd.randint(0, len(ops)), {"op": "cli", "paths": rnd.choice([paths, ["."], [rnd.choice(paths)]])})
    case["ops"] = ops
    return case


def cases(tier):
    """The case is a pure function of one Hypothesis-drawn integer (5 hierarchies : 1 history).  Hypothesis always
    starts a run with its minimal example (0), which would be the same case in every shard: it is returned as a marker
    and counted as excluded (examples() asks for one more to make up for it)."""
    import random

    def build(s):
        if s == 0:
            return {"skip": "hypothesis-minimal-example"}
        rnd = random.Random(s)
        return gen_case(rnd, "history" if rnd.random() < 1 / 6 else "hierarchy")

    return st.integers(0, 2 ** 62).map(build)


# --------------------------------------------------------------------------- the check


def codes_diff(a, b):
    sa, sb = {tuple(x) for x in a}, {tuple(x) for x in b}
    return ",".join(sorted({x[0] for x in sa ^ sb}))[:60]


class C27(Check):
    id = "C27"
    level = "exploration"
    shrink_fields = ()
    rule = (
        "A case is a generated project: user config (one of ~/.sqlfluff-style file in $HOME, ~/.config/sqlfluff, "
        "$XDG_CONFIG_HOME/sqlfluff), at most one config file per directory (.sqlfluff, setup.cfg, tox.ini, pep8.ini or "
        "pyproject.toml) in the working directory and nested directories down to depth 3, an optional extra config file "
        "(ini or toml), overrides (the CLI-settable dialect/rules/exclude_rules/templater, or any core key through the "
        "API's overrides=), 1-4 SQL files with inline `-- sqlfluff:` / `--sqlfluff:` directives at the top, between "
        "statements or at the end. Sources set a Hypothesis-chosen subset of 11 probe settings (dialect, templater, "
        "max_line_length, rules, exclude_rules, CP01/CP02 policies, tab_space_size, indent_unit, two jinja context "
        "variables); every file body is generated so that each probe changes the violation list or the rendered text. "
        "Operations run in ONE child process (cwd = project, HOME = case home): 'hierarchy' cases read every file's "
        "config back and lint all files in one lint_paths call; 'history' cases play 8-15 steps (lint one file / "
        "several / a directory, config read-back, lint the file's text as a string through the per-file or the root "
        "config, parse; shared or new Linter; repeated steps; when every override has a command line option also one "
        "real `sqlfluff lint --format json --config .. --dialect .. --rules ..` run). Oracles: (1) FluffConfig values read back per file "
        "(with inline, child without inline, root) equal the model 'highest-precedence source that sets the key'; "
        "(2) violations and rendered text equal a lint of the same text under a config built directly from the model's "
        "values; (3) history cases: every file's result in every step equals the file linted alone in a fresh process; "
        "(4) no step fails. Non-trivial: some probe of some file is set by >= 2 sources with different values. "
        "String-lint steps whose deviation is exactly 'inline rule selection/rule options ignored' are the known "
        "finding F-C27-a (= F-C19-a)."
    )
    assumptions = [
        "the order between user-config locations and between config file types inside one directory is not defined by "
        "the statement: at most one of each is generated",
        "the templater is only set at root level (docs: cannot be set below the working directory)",
        "rule behaviour under a given config object is trusted (the reference lint uses the same rules)",
        "the project directory is not below $HOME",
    ]

    def selftest(self):
        f = {"path": "a/b/f.sql", "inline": [["max_line_length", 30, True, 0]], "sql": "SELECT 1\n"}
        case = {"user": {"where": "home", "fmt": ".sqlfluff", "set": {"max_line_length": 100, "kw_policy": "upper", "dialect": "ansi"}},
                "dirs": {"": {"fmt": ".sqlfluff", "set": {"max_line_length": 60, "tab_space_size": 2}},
                         "a/b": {"fmt": "tox.ini", "set": {"tab_space_size": 8}},
                         "d": {"fmt": "tox.ini", "set": {"tab_space_size": 4, "dialect": "tsql"}}},
                "extra": {"fmt": "custom.cfg", "set": {"kw_policy": "lower"}}, "overrides": {"dialect": "mysql"}, "files": [f]}
        e = effective(case, f)
        assert e["max_line_length"] == (30, "inline") and e["tab_space_size"] == (8, "dir:a/b")
        assert e["kw_policy"] == ("lower", "extra") and e["dialect"] == ("mysql", "override")
        assert e["indent_unit"] == ("space", "default")
        assert effective(case, f, inline=False)["max_line_length"] == (60, "dir:.")
        assert effective(case, f, root_only=True, inline=False)["tab_space_size"] == (2, "dir:.")
        assert chain("a/b/f.sql") == ["", "a", "a/b"] and chain("f.sql") == [""]
        assert file_text({"sql": "A\n\nB\n", "inline": [["dialect", "ansi", True, 1], ["rules", "LT01", False, 2]]}) == \
            "A\n\n-- sqlfluff:dialect:ansi\n\nB\n\n\n--sqlfluff:rules:LT01\n"
        assert inline_line("kw_policy", "upper") == "-- sqlfluff:rules:capitalisation.keywords:capitalisation_policy:upper"
        assert neutralise("-- sqlfluff:a:b\nx") == "-- sqlfluxx:a:b\nx"
        # shipped defaults agree with the table, and every probe value is observable on a standard body
        from sqlfluff.core import FluffConfig

        cfg = FluffConfig(overrides={"dialect": "ansi"})
        for k, (path, _vals, default) in PROBES.items():
            if k != "dialect":
                got = cfg.get(path[-1], section=list(path[:-1])) if len(path) > 2 else cfg.get(path[-1], section=path[0])
                assert got == default, (k, got, default)
        import random

        body = ("select a, B  from T\nWhere x = 1\n  AND y = 2;\n" + "\n".join(DIALECT_LINES) + "\nSELECT {{ pa }}, {{ pb }} FROM t AS u;\n"
                + "\n".join("-- %s" % ("q" * (n - 3)) for n in LENGTHS[::2]) + "\n")
        base = {k: (PROBES[k][2], "default") for k in PROBES}
        base.update(dialect=("ansi", "x"), ctx_pa=("col_x", "x"), ctx_pb=("Q", "x"))
        for k, (_p, vals, _d) in PROBES.items():
            seen = {}
            for v in vals:
                e = dict(base)
                e[k] = (v, "x")
                r = reference_lint(body, e)
                sig = json.dumps(r, sort_keys=True)
                assert sig not in seen, "probe %s: values %r and %r are not distinguishable" % (k, v, seen[sig])
                seen[sig] = v

    def strategy(self, tier):
        return cases(tier)

    def examples(self, tier):
        return (6 if tier == "quick" else 300) + 1

    def budget_s(self, tier):
        # safety net only; VERIF_BUDGET_SCALE stretches it on a busy machine (every case spawns processes)
        return (240.0 if tier == "quick" else 1700.0) * float(os.environ.get("VERIF_BUDGET_SCALE", "1"))

    # -- run
    def run_case(self, case):
        out = Outcome()
        if case.get("skip"):
            out.excluded = case["skip"]
            return out
        files = {f["path"]: f for f in case["files"]}
        texts = {p: file_text(f) for p, f in files.items()}
        rspec = root_spec(case)
        ops = []
        for op in case["ops"]:
            op = dict(op)
            if op["op"] == "cli":
                op.update(json=True, args=cli_args(case, op["paths"]))
            else:
                op["root"] = rspec
            ops.append(op)
        # labels / non-triviality from the model
        conflict = False
        for f in case["files"]:
            for k, (_v, src) in effective(case, f).items():
                if src != "default":
                    out.label("value-from:" + src.split(":")[0])
            for k in PROBES:
                vals = [s[k] for _, s in sources(case, f) if k in s]
                if len(set(map(str, vals))) >= 2:
                    conflict = True
                    out.label("decided-by:" + effective(case, f)[k][1].split(":")[0])
        out.nontrivial = conflict
        out.label("kind:" + case["kind"])
        if case.get("user"):
            out.label("user:" + case["user"]["where"])
        for spec in list(case["dirs"].values()) + ([case["extra"]] if case.get("extra") else []):
            out.label("fmt:" + ("toml" if spec["fmt"] == "pyproject.toml" else "ini"))
        if case.get("extra"):
            out.label("extra-config")
        if case.get("overrides"):
            out.label("overrides")
        if any(f["inline"] for f in case["files"]):
            out.label("inline")
        if any(op["op"] == "cli" for op in case["ops"]):
            out.label("real-cli-run")
        if len({json.dumps(expected_readback(effective(case, f)), default=str) for f in case["files"]}) > 1:
            out.label("files-differ-in-effective-config")

        world = World(tree_of(case), use_xdg=bool(case.get("user") and case["user"]["where"] == "xdg"))
        try:
            steps, rc, err = world.play(ops, READBACK)
            if rc == "timeout" or (isinstance(rc, int) and rc in (-9, -15) and len(steps) < len(ops)):
                out.excluded = "timeout-or-killed(machine too busy)"
                return out
            if len(steps) < len(ops):
                out.fail("driver stopped after %d/%d steps rc=%s: %s" % (len(steps), len(ops), rc, err[-300:]),
                         clause="driver-died")
                return out
            changed = sorted({c for s in steps for c in s["changed"]})
            if changed:
                out.fail("files changed: %s" % changed[:5], clause="input-modified")
            fresh = {}
            if case["kind"] == "history":
                paths = sorted(files)
                fres = world.play_fresh([{"op": "lint", "paths": [p], "root": rspec, "linter": "new"} for p in paths], READBACK)
                for p, s in zip(paths, fres):
                    fresh[p] = s["res"]
            for i, (op, step) in enumerate(zip(ops, steps)):
                self.judge(out, case, files, texts, op, step["res"], fresh, i)
        finally:
            world.close()
            out.labels = sorted(set(out.labels))
        return out

    def judge(self, out, case, files, texts, op, res, fresh, i):
        kind = op["op"]
        if infra(res):
            out.label("step-not-compared:timeout")
            return
        if "error" in res:
            out.fail("step %d %s failed: %s %s at %s" % (i, kind, res["error"], res["msg"], res.get("frame")),
                     clause="step-error", op=kind, exc=res["error"], frame=res.get("frame"))
            return
        if kind == "config":
            f = files[op["path"]]
            for which, eff in (("file", effective(case, f)), ("child", effective(case, f, inline=False)),
                               ("root", effective(case, None, inline=False, root_only=True))):
                exp = expected_readback(eff)
                got = res[which]
                names = list(PROBES) + ["rule_allowlist", "rule_denylist"]
                for name, e, g in zip(names, exp, got):
                    if e != g:
                        src = eff[name][1] if name in eff else eff["rules" if name == "rule_allowlist" else "exclude_rules"][1]
                        # which source (if any) supplied the value that was observed?
                        base = name if name in PROBES else ("rules" if name == "rule_allowlist" else "exclude_rules")
                        got_from = "none"
                        for label, s in sources(case, f):
                            if base in s and (s[base] == g or split_csv(s[base]) == g):
                                got_from = label.split(":")[0]
                        if got_from == "none" and (g == PROBES[base][2] or g == split_csv(PROBES[base][2])):
                            got_from = "default"
                        out.fail("step %d config(%s) %s.%s = %r, model says %r from %s" % (i, op["path"], which, name, g, e, src),
                                 clause="readback", view=which, key=name, expected_from=src.split(":")[0], got_from=got_from)
            return
        if kind == "parse":
            return
        if kind == "cli" and "files" not in res:
            out.fail("step %d sqlfluff %s: rc=%s %s %s" % (i, " ".join(op["args"]), res.get("rc"), res.get("json_error"), res.get("stderr", "")[-200:]),
                     clause="cli-failed", rc=res.get("rc"))
            return
        if kind in ("lint", "cli"):
            want = set()
            for p in op["paths"]:
                if p in files:
                    want.add(p)
                else:
                    pref = "" if p in (".", "") else p.rstrip("/") + "/"
                    want |= {q for q in files if q.startswith(pref)}
            got = set(res["files"])
            if got != want:
                out.fail("step %d %s%s reported files %s, expected %s" % (i, kind, op["paths"], sorted(got), sorted(want)),
                         clause="fileset", op=kind)
            for p in sorted(got & want):
                eff = effective(case, files[p])
                self.compare(out, i, kind, p, texts[p], eff, res["files"][p])
                if p in fresh:
                    self.isolation(out, i, kind, p, res["files"][p], fresh[p])
            return
        if kind == "lint_string_file":
            p = op["path"]
            f = files[p]
            root_only = op.get("via") == "root"
            eff = effective(case, f, root_only=root_only)
            rec = dict(res["files"][p])
            rec["v"] = norm_v(rec["v"])
            ref = reference_lint(texts[p], eff)
            if rec["v"] != ref["v"]:
                inl = {k for k, *_ in f["inline"]}
                if inl & set(RULE_CONFIG_KEYS):
                    eff2 = effective(case, f, root_only=root_only, drop_inline_keys=RULE_CONFIG_KEYS)
                    if rec["v"] == reference_lint(texts[p], eff2)["v"]:
                        out.fail("step %d lint_string(%s via %s): inline %s ignored" % (i, p, op.get("via"), sorted(inl & set(RULE_CONFIG_KEYS))),
                                 clause="string-inline-rule-config-ignored")
                        out.label("F-C19-a-shape")
                        return
            self.compare(out, i, "lint_string:" + str(op.get("via")), p, texts[p], eff, rec)
            return

    def compare(self, out, i, opname, p, text, eff, rec):
        ref = reference_lint(text, eff)
        rec = dict(rec, v=norm_v(rec["v"]))
        if rec["v"] != ref["v"]:
            out.fail("step %d %s(%s): violations differ from the model config %s: got %s expected %s" % (
                i, opname, p, {k: v[0] for k, v in eff.items() if v[1] != "default"}, rec["v"][:6], ref["v"][:6]),
                clause="behaviour", op=opname.split(":")[0], via=opname.partition(":")[2] or None, codes=codes_diff(rec["v"], ref["v"]))
        if eff["templater"][0] == "jinja":
            exp = model_render(text, eff)
            if exp is not None and rec["rendered"] is not None and rec["rendered"] != exp:
                out.fail("step %d %s(%s): rendered text differs from the model" % (i, opname, p), clause="rendered", op=opname.split(":")[0])
            out.label("jinja-context-observed")

    def isolation(self, out, i, opname, p, rec, fres):
        if infra(fres):
            return
        if "error" in fres:
            out.fail("fresh lint of %s failed: %s" % (p, fres), clause="fresh-error", exc=fres["error"])
            return
        frec = fres["files"].get(p)
        if frec is None or frec["v"] != rec["v"] or (rec["rendered"] is not None and frec["rendered"] != rec["rendered"]):
            out.fail("step %d %s(%s) differs from the file linted alone in a fresh process: %s vs %s" % (
                i, opname, p, rec["v"][:6], (frec or {}).get("v", [])[:6]), clause="isolation",
                codes=codes_diff(rec["v"], (frec or {}).get("v", [])))


CHECK = C27()
