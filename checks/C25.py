"""C25 File discovery honours ignore files regardless of path spelling."""
import itertools
import os

from hypothesis import strategies as st

from vlib import projlib as P
from vlib.framework import Check, Outcome

# ---------------------------------------------------------------------------------------------- domain
FILES_BY_DIR = {
    "": ["x.sql", "y.SQL", "n.txt"],
    "sub": ["x.sql", "w.sql", "z.sql.j2"],
    "sub/deep": ["x.sql", "v.SQL"],
    "sub/deep/low": ["x.sql", "t.sql"],
    "oth": ["x.sql", "u.sql"],
}
SHAPES = {
    "flat": [""],
    "one": ["", "sub"],
    "two": ["", "sub", "sub/deep"],
    "three": ["", "sub", "sub/deep", "sub/deep/low"],
    "wide": ["", "sub", "oth"],
    "full": ["", "sub", "sub/deep", "sub/deep/low", "oth"],
}
KINDS = [".sqlfluffignore", ".sqlfluff", "pyproject.toml"]
PATTERNS = ["x.sql", "*.sql", "sub/", "sub", "/sub/x.sql", "**/x.sql", "sub/*.sql", "deep/", "deep", "/x.sql", "*.SQL",
            "low/x.sql", "sub/deep/", "/deep/x.sql", "w.*", "*"]
PAIR_PATTERNS = ["x.sql", "*.SQL", "deep/", "/sub/x.sql"]
THOROUGH_PATTERNS = ["sub/**", "**/deep/", "*.sql.j2", "x.*", "?.sql", "/oth/", "[xw].sql", "sub/deep/low/", "**/low/*.sql",
                     "/sub/deep", "deep/*", "*.j2"]
THOROUGH_PAIR_PATTERNS = PAIR_PATTERNS + ["sub", "**/x.sql"]
EXTS = [[".sql"], [".sql", ".sql.j2"]]
REL_SPELLINGS = ("relative", "dot-slash", "trailing-slash", "dot", "inner-dot")


def ignore_file_text(kind, patterns, extra_core=None):
    if kind == ".sqlfluffignore":
        return "\n".join(patterns) + "\n"
    if kind == ".sqlfluff":
        lines = ["[sqlfluff]", "ignore_paths = " + ",".join(patterns)]
        for k, v in (extra_core or {}).items():
            lines.append("%s = %s" % (k, v))
        return "\n".join(lines) + "\n"
    if kind == "pyproject.toml":
        return "[tool.sqlfluff.core]\nignore_paths = [%s]\n" % ", ".join('"%s"' % p for p in patterns)
    raise ValueError(kind)


def tree_files(case):
    """relative path -> content, for the whole case directory."""
    files = {}
    for d in SHAPES[case["shape"]]:
        for f in FILES_BY_DIR[d]:
            files[(d + "/" if d else "") + f] = "SELECT 1\n"
    for ig in case["ignores"]:
        files[(ig["dir"] + "/" if ig["dir"] else "") + ig["kind"]] = ignore_file_text(ig["kind"], ig["patterns"])
    return files


def is_under(path, d):
    """path (posix, relative to the root, "" = root) is d or below d"""
    return d == "" or path == d or path.startswith(d + "/")


IMPLIED = set()


def _basic_match(patterns, rel):
    """Does a pattern match the path `rel` itself (as opposed to one of its parent directories)?  Only used to
    classify failures.  pathspec >= 1.0 registers the documented-format patterns as "gitignore"; git's actual
    behaviour (an excluded directory excludes everything below it) is "gitwildmatch" / GitIgnoreSpec."""
    import pathspec

    try:
        return bool(pathspec.PathSpec.from_lines("gitignore", patterns).match_file(rel))
    except Exception:
        return True


def model_select(case, target, exts, cwd):
    """The statement as a function.  target / cwd: posix paths relative to the case root ("" = root).

    A file is linted iff it is the target or below it, its name ends (case-insensitively) with a configured
    extension, and no applicable ignore source matches it.  Applicable: an ignore source in a directory that is an
    ancestor-or-self of the file's directory (and at or below the working directory: the documented search area);
    its patterns are gitignore patterns relative to that directory (pathspec gitwildmatch is the trusted base).
    -> (selected list, {ignored file: [ignore dirs whose source matches]})
    """
    import pathspec

    sql_files = [p for p in tree_files(case) if os.path.basename(p) not in KINDS]
    lower = tuple(e.lower() for e in exts)
    selected, ignored = [], {}
    implied = IMPLIED  # (file, source dir) pairs matched only because a pattern matches one of the file's parent directories
    for f in sorted(sql_files):
        if not is_under(f, target):
            continue
        if not f.lower().endswith(lower):
            continue
        fdir = os.path.dirname(f)
        hits = []
        for ig in case["ignores"]:
            if not is_under(fdir, ig["dir"]) or not is_under(ig["dir"], cwd):
                continue
            spec = pathspec.PathSpec.from_lines("gitwildmatch", ig["patterns"])
            rel = f[len(ig["dir"]) + 1:] if ig["dir"] else f
            if spec.match_file(rel):
                hits.append(ig["dir"])
                if not _basic_match(ig["patterns"], rel):
                    implied.add((f, ig["dir"]))
        if hits:
            ignored[f] = hits
        else:
            selected.append(f)
    return selected, ignored


def spellings(target, cwd, root, is_dir, tier):
    """(name, string) for every spelling of `target` as seen from `cwd`."""
    rel = os.path.relpath(os.path.join(root, target), os.path.join(root, cwd))
    absolute = os.path.join(root, target) if target else root
    out = []
    if rel == ".":
        out += [("dot", "."), ("dot-slash", "./")]
    else:
        out += [("relative", rel), ("dot-slash", "./" + rel)]
        if is_dir:
            out.append(("trailing-slash", rel + "/"))
        if "/" in rel and tier == "thorough":
            out.append(("inner-dot", rel.replace("/", "/./", 1)))
    out.append(("absolute", absolute))
    if is_dir and tier == "thorough":
        out.append(("absolute-slash", absolute + "/"))
    return out


def enumerate_cases(tier):
    for shape, dirs in SHAPES.items():
        for d in dirs:
            for kind in KINDS:
                for pat in PATTERNS + (THOROUGH_PATTERNS if tier == "thorough" else []):
                    yield {"shape": shape, "ignores": [{"dir": d, "kind": kind, "patterns": [pat]}]}
    pair_shapes = ("two", "full") if tier == "quick" else ("two", "three", "wide", "full")
    pair_patterns = PAIR_PATTERNS if tier == "quick" else THOROUGH_PAIR_PATTERNS
    kind_pairs = [(".sqlfluffignore", ".sqlfluff"), (".sqlfluff", "pyproject.toml"), (".sqlfluffignore", ".sqlfluffignore")]
    for shape in pair_shapes:
        for d1, d2 in itertools.combinations(SHAPES[shape], 2):
            for k1, k2 in kind_pairs:
                for p1 in pair_patterns:
                    for p2 in pair_patterns:
                        yield {"shape": shape, "ignores": [{"dir": d1, "kind": k1, "patterns": [p1]},
                                                           {"dir": d2, "kind": k2, "patterns": [p2]}]}


@st.composite
def generated(draw):
    shape = draw(st.sampled_from(["two", "three", "wide", "full", "full"]))
    dirs = SHAPES[shape]
    n = draw(st.integers(1, 3))
    used = set()
    ignores = []
    for _ in range(n):
        d = draw(st.sampled_from(dirs))
        k = draw(st.sampled_from(KINDS))
        if (d, k) in used:
            continue
        used.add((d, k))
        ignores.append({"dir": d, "kind": k, "patterns": draw(st.lists(st.sampled_from(PATTERNS + THOROUGH_PATTERNS), min_size=1, max_size=3,
                                                                      unique=True))})
    cwd = draw(st.sampled_from(["", "", "sub"]))
    targets = [d for d in dirs if is_under(d, cwd)] + [f for f in ("x.sql", "sub/x.sql", "sub/deep/v.SQL", "sub/z.sql.j2")
                                                      if is_under(f, cwd) and os.path.dirname(f) in dirs]
    target = draw(st.sampled_from(targets))
    return {"shape": shape, "ignores": ignores,
            "cli": {"cwd": cwd, "target": target,
                    "spelling": draw(st.sampled_from(["relative", "relative", "dot-slash", "absolute", "trailing-slash"])),
                    "exts": draw(st.sampled_from(EXTS))}}


class C25(Check):
    id = "C25"
    thorough_pinned = True  # full thorough enumeration observed quiet on the unchanged tree
    level = "exploration"
    shrink_fields = ()
    rule = (
        "Exhaustive (independent of the seed): tree shapes {flat, one, two, three, wide, full} over the directories "
        "root, sub, sub/deep, sub/deep/low, oth with files .sql / .SQL / .sql.j2 / .txt; one ignore source "
        "(.sqlfluffignore, .sqlfluff ignore_paths, pyproject.toml ignore_paths) in every directory of the shape x 16 "
        "gitignore patterns (thorough: 28), plus pairs of sources in two directories (3 kind pairs x 4x4 patterns, quick: "
        "shapes two and full; thorough: 6x6 patterns, four shapes); for every case: every directory and four files as target x spellings (relative, ./-prefixed, "
        "trailing slash, '.', absolute; thorough also inner './' and absolute with slash) x working directory (root, "
        "sub) x extension lists ((.sql), (.sql,.sql.j2)). Ignore sources above the working directory are outside the "
        "documented search area and those evaluations are counted as excluded; negated patterns are not generated. "
        "One fresh directory per case; paths_from_path(spelling, working_path=cwd, target_file_exts=...) is called "
        "in-process after os.chdir(cwd) (restored afterwards). Generated: Hypothesis-drawn shape, 1-3 sources with 1-3 "
        "patterns each, evaluated in-process the same way and additionally through `sqlfluff lint --format json` in a "
        "subprocess for one drawn target/spelling/cwd. Oracle: own model (statement + pathspec gitwildmatch as trusted "
        "base) gives the selected set; result compared as a set of absolute paths, no duplicates, and therefore equal "
        "for all spellings. Non-trivial: some evaluation where the model ignores at least one candidate file and "
        "selects at least one."
    )
    assumptions = [
        "pathspec's gitwildmatch (git's behaviour: an excluded directory excludes everything below it) decides whether "
        "one pattern list matches one relative path (trusted base); the model decides which sources apply to which file "
        "and relative to which directory",
        "in-process calls run after os.chdir into the case's working directory with working_path passed explicitly "
        "(the default is bound at import time); a sample is cross-checked with real CLI subprocesses",
    ]

    def selftest(self):
        case = {"shape": "full", "ignores": [{"dir": "sub", "kind": ".sqlfluffignore", "patterns": ["x.sql"]}]}
        sel, ign = model_select(case, "", [".sql"], "")
        assert "sub/x.sql" in ign and "sub/deep/x.sql" in ign and "sub/deep/low/x.sql" in ign, ign
        assert "x.sql" in sel and "oth/x.sql" in sel and "y.SQL" in sel and "n.txt" not in sel and "sub/z.sql.j2" not in sel
        sel, ign = model_select(case, "sub/deep", [".sql", ".sql.j2"], "")
        assert sel == ["sub/deep/low/t.sql", "sub/deep/v.SQL"], sel
        case = {"shape": "full", "ignores": [{"dir": "", "kind": ".sqlfluff", "patterns": ["/sub/x.sql", "deep/"]}]}
        sel, ign = model_select(case, "sub", [".sql", ".sql.j2"], "")
        assert sel == ["sub/w.sql", "sub/z.sql.j2"], sel
        sel, ign = model_select(case, "sub", [".sql"], "sub")  # source above the working directory: not applicable
        assert "sub/x.sql" in sel
        sel, ign = model_select(case, "sub/x.sql", [".sql"], "")
        assert sel == [] and ign == {"sub/x.sql": [""]}
        assert ignore_file_text("pyproject.toml", ["a", "b/"]) == '[tool.sqlfluff.core]\nignore_paths = ["a", "b/"]\n'
        assert dict(spellings("sub/deep", "sub", "/r", True, "quick"))["relative"] == "deep"
        assert dict(spellings("sub", "sub", "/r", True, "quick"))["dot"] == "."

    def pinned(self, tier):
        for case in enumerate_cases(tier):
            if tier == "thorough":
                case["thorough"] = True  # more spellings per target
            yield case

    def strategy(self, tier):
        if tier == "thorough":
            return generated().map(lambda c: dict(c, thorough=True))
        return generated()

    def examples(self, tier):
        return 3 if tier == "quick" else 70

    def budget_s(self, tier):
        return 300.0 if tier == "quick" else 1700.0

    def finish(self, tier, merged):
        quick = tier == "quick"
        return {"exhaustive": True,
                "exhaustive_scope": "6 shapes x single ignore source (every directory x 3 kinds x %d patterns) and pairs of "
                                    "sources (%s) x all targets x spellings x cwd {root, sub} x 2 extension lists"
                                    % (16 if quick else 28, "shapes two, full; 4x4 patterns" if quick
                                       else "shapes two, three, wide, full; 6x6 patterns"),
                "paths_from_path_calls": int(merged["labels"].get("call:paths_from_path", 0))}

    # ------------------------------------------------------------------------------------------ one case

    def run_case(self, case):
        from sqlfluff.core.linter.discovery import paths_from_path

        out = Outcome()
        IMPLIED.clear()
        tier = "thorough" if case.get("thorough") else "quick"
        dirs = SHAPES[case["shape"]]
        files = tree_files(case)
        root = P.fresh_dir("c25-")
        labels = {"shape:" + case["shape"], "sources:%d" % len(case["ignores"])}
        for ig in case["ignores"]:
            labels.add("kind:" + ig["kind"])
            labels.add("source-depth:%d" % (ig["dir"].count("/") + 1 if ig["dir"] else 0))
        ncalls = 0
        nskipped = 0
        seen_sigs = set()
        only = case.get("only")  # replay files may restrict the evaluation: {"cwd":..,"target":..,"spelling":..,"exts":..}
        home = os.getcwd()
        try:
            P.write_tree(root, files)
            file_targets = [f for f in ("x.sql", "y.SQL", "n.txt", "sub/x.sql", "sub/z.sql.j2", "sub/deep/v.SQL") if f in files]
            for cwd in ("", "sub"):
                if cwd and cwd not in dirs:
                    continue
                if only and only.get("cwd", cwd) != cwd:
                    continue
                if any(not is_under(ig["dir"], cwd) for ig in case["ignores"]):
                    nskipped += 1
                    continue
                cwd_abs = os.path.join(root, cwd) if cwd else root
                os.chdir(cwd_abs)
                for target in [d for d in dirs if is_under(d, cwd)] + [f for f in file_targets if is_under(f, cwd)]:
                    if only and only.get("target", target) != target:
                        continue
                    is_dir = target in dirs
                    for exts in EXTS:
                        if only and only.get("exts", exts) != exts:
                            continue
                        sel, ign = model_select(case, target, exts, cwd)
                        expect = {os.path.join(root, p) for p in sel}
                        if sel and ign:
                            out.nontrivial = True
                        results = {}
                        for name, spelled in spellings(target, cwd, root, is_dir, tier):
                            if only and only.get("spelling", name) != name:
                                continue
                            ncalls += 1
                            got = paths_from_path(spelled, working_path=cwd_abs, target_file_exts=exts)
                            got_abs = [os.path.abspath(p) for p in got]
                            results[name] = set(got_abs)
                            if len(got_abs) != len(set(got_abs)):
                                self._fail(out, seen_sigs, "duplicates in %r" % got, clause="duplicates",
                                           spelling="absolute" if name.startswith("absolute") else "relative")
                            sp_class = "absolute" if name.startswith("absolute") else "relative"
                            for p in sorted(set(got_abs) - expect):
                                relp = os.path.relpath(p, root)
                                srcs = ign.get(relp, [])
                                if not srcs:
                                    why = "not-a-candidate"
                                    below = "-"
                                else:
                                    pos = {("inner" if (is_dir and s != target and is_under(s, target)) else "outer") for s in srcs}
                                    why = "inner" if pos == {"inner"} else ("outer" if pos == {"outer"} else "both")
                                    below = "subdir" if all(os.path.dirname(relp) != s for s in srcs) else "same-dir"
                                how = "directory-implied" if srcs and all((relp, s) in IMPLIED for s in srcs) else "direct"
                                self._fail(out, seen_sigs,
                                           "cwd=%r target=%r spelled %r exts=%s: %s is selected but ignored by the source(s) in %s; "
                                           "case ignores=%s" % (cwd, target, spelled, exts, relp, srcs, case["ignores"]),
                                           clause="selection", direction="extra", spelling=sp_class, source=why,
                                           below_source=below, match=how)
                            for p in sorted(expect - set(got_abs)):
                                relp = os.path.relpath(p, root)
                                self._fail(out, seen_sigs,
                                           "cwd=%r target=%r spelled %r exts=%s: %s is not selected but nothing ignores it; "
                                           "case ignores=%s" % (cwd, target, spelled, exts, relp, case["ignores"]),
                                           clause="selection", direction="missing", spelling=sp_class,
                                           ext=os.path.splitext(relp)[1])
                        if len({frozenset(v) for v in results.values()}) > 1:
                            labels.add("spellings-disagree")
                os.chdir(home)
            # ---- CLI sample
            cli = case.get("cli")
            if cli:
                self._cli(out, case, cli, root, dirs, seen_sigs)
                labels.add("cli-sample")
        finally:
            os.chdir(home)
            P.rmtree(root)
        out.labels.extend(sorted(labels))
        out.labels.extend(["call:paths_from_path"] * ncalls)
        if nskipped:
            out.labels.extend(["excluded-eval:source-above-cwd"] * nskipped)
        if ncalls == 0 and not case.get("cli"):
            out.excluded = "every ignore source is above every evaluated working directory"
        return out

    @staticmethod
    def _fail(out, seen, detail, **sig):
        key = tuple(sorted(sig.items()))
        if key in seen:  # one failure per signature and case is enough
            return
        seen.add(key)
        out.fail(detail, **sig)

    def _cli(self, out, case, cli, root, dirs, seen_sigs):
        cwd, target, exts = cli["cwd"], cli["target"], cli["exts"]
        if any(not is_under(ig["dir"], cwd) for ig in case["ignores"]):
            out.labels.append("excluded-eval:source-above-cwd")
            return
        is_dir = target in dirs
        sp = dict(spellings(target, cwd, root, is_dir, "quick"))
        name = cli["spelling"] if cli["spelling"] in sp else ("dot" if "dot" in sp else "absolute")
        spelled = sp[name]
        sel, ign = model_select(case, target, exts, cwd)
        cwd_abs = os.path.join(root, cwd) if cwd else root
        args = ["lint", "--format", "json", "--dialect", "ansi"]
        # The configured extensions are always stated explicitly (the default list is .sql,.sql.j2,.dml,.ddl,.pkb).  A
        # config file inside the tree would itself be an ignore-source candidate, so it goes in through --config.
        extra = os.path.join(os.path.dirname(root), os.path.basename(root) + ".cfg")
        with open(extra, "w") as fh:
            fh.write("[sqlfluff]\nsql_file_exts = %s\n" % ",".join(exts))
        args += ["--config", extra]
        try:
            rc, so, se = P.run_cli(args + [spelled], cwd_abs)
        finally:
            os.unlink(extra)
        recs = P.json_records(so)
        if P.is_traceback(se) or recs is None:
            out.excluded = "crash(C04): cli rc=%s" % rc
            return
        got = {os.path.normpath(os.path.join(cwd_abs, r["filepath"])) for r in recs}
        expect = {os.path.join(root, p) for p in sel}
        sp_class = "absolute" if name.startswith("absolute") else "relative"
        if sel and ign:
            out.nontrivial = True
        for p in sorted(got - expect):
            relp = os.path.relpath(p, root)
            srcs = ign.get(relp, [])
            pos = {("inner" if (is_dir and s != target and is_under(s, target)) else "outer") for s in srcs}
            why = "not-a-candidate" if not srcs else ("inner" if pos == {"inner"} else ("outer" if pos == {"outer"} else "both"))
            below = "-" if not srcs else ("subdir" if all(os.path.dirname(relp) != s for s in srcs) else "same-dir")
            how = "directory-implied" if srcs and all((relp, s) in IMPLIED for s in srcs) else "direct"
            self._fail(out, seen_sigs, "CLI cwd=%r %r: %s linted but ignored by %s; ignores=%s" % (cwd, spelled, relp, srcs, case["ignores"]),
                       clause="selection", direction="extra", spelling=sp_class, source=why, below_source=below, match=how)
        for p in sorted(expect - got):
            relp = os.path.relpath(p, root)
            self._fail(out, seen_sigs, "CLI cwd=%r %r: %s not linted but nothing ignores it; ignores=%s; stderr %s"
                       % (cwd, spelled, relp, case["ignores"], se[-200:]),
                       clause="selection", direction="missing", spelling=sp_class, ext=os.path.splitext(relp)[1])


CHECK = C25()
