"""C03 Parse trees are well-formed and indentation markers balance."""
from vlib import lexparse
from vlib.framework import Check, Outcome
from vlib.tmap import slicemap_problems

WS_TYPES = ("whitespace", "newline", "comment")


def tree_problems(tree):
    """Independent walk of the tree: (clause, node_type, detail)."""
    probs = []
    depth_max = 0
    stack = [(tree, 0, False)]
    while stack:
        seg, depth, in_unparsable = stack.pop()
        depth_max = max(depth_max, depth)
        ch = seg.segments
        if not ch:
            continue
        pm = seg.pos_marker
        ts = (min(c.pos_marker.templated_slice.start for c in ch), max(c.pos_marker.templated_slice.stop for c in ch))
        ss = (min(c.pos_marker.source_slice.start for c in ch), max(c.pos_marker.source_slice.stop for c in ch))
        if (pm.templated_slice.start, pm.templated_slice.stop) != ts:
            probs.append(("span-rendered", seg.get_type(), f"{seg.get_type()} {pm.templated_slice} children span {ts}"))
        if (pm.source_slice.start, pm.source_slice.stop) != ss:
            probs.append(("span-source", seg.get_type(), f"{seg.get_type()} {pm.source_slice} children span {ss}"))
        # Positional order.  Children with rendered text must not start before the previous such child
        # ends.  Zero-width children (metas, placeholders) are not judged: a token that spans several template slices
        # legitimately has the placeholders of those slices emitted next to it although their position lies
        # inside its span, and indents are inserted by token index next to them.
        # A child's position is taken from its leaves that carry text: a zero-width meta placed (by a token
        # that spans template slices) inside the *next* token would otherwise stretch its parent over that token.
        prev_stop = None
        for c in ch:
            leaves = [r.pos_marker.templated_slice for r in c.raw_segments if not r.is_meta and r.raw]
            if not leaves:
                continue
            start, stop = min(l.start for l in leaves), max(l.stop for l in leaves)
            if prev_stop is not None and start < prev_stop:
                probs.append(("child-order", seg.get_type(), f"child {c.get_type()} text {start}:{stop} starts before {prev_stop}"))
                break
            prev_stop = stop
        unp = in_unparsable or seg.is_type("unparsable")
        if not seg.is_type("file") and not unp:
            nm = [c for c in ch if not c.is_meta]
            if nm:
                for end, name in ((nm[0], "first"), (nm[-1], "last")):
                    if end.is_type(*WS_TYPES):
                        probs.append(("non-code-edge", seg.get_type(),
                                      f"{seg.get_type()} {name} child is {end.get_type()} {end.raw[:20]!r}"))
        for c in ch:
            stack.append((c, depth + 1, unp))
    return probs, depth_max


def imbalance_origin(tree):
    """Type of the deepest node whose leaves do not balance although each of its child nodes does: the node whose
    own grammar emitted an Indent without a Dedent (or vice versa)."""
    node = tree
    while True:
        nxt = None
        for c in node.segments:
            if c.segments and sum(getattr(r, "indent_val", 0) for r in c.raw_segments if r.is_meta) != 0:
                nxt = c
                break
        if nxt is None:
            return node.get_type()
        node = nxt


def indent_balance(raws):
    bal = 0
    mn = 0
    first_neg = None
    for i, s in enumerate(raws):
        iv = getattr(s, "indent_val", 0) if s.is_meta else 0
        bal += iv
        if bal < mn:
            mn = bal
            if first_neg is None:
                first_neg = i
    return bal, mn


class C03(Check):
    id = "C03"
    level = "exploration"
    rule = (
        "Domain: every fixture of every dialect (<= 1500 chars, seed-independent), the degenerate pinned texts and "
        "templater fixtures, plus the C02 generators (Hypothesis-chosen fixtures unmutated/mutated, text, templates). Oracle (independent tree walk): every non-leaf node's rendered and "
        "source slices equal (min child start, max child stop); children's rendered starts never precede the previous "
        "child's stop; nodes other than file/unparsable (and their descendants inside an unparsable) do not begin or "
        "end (ignoring zero-width metas) with whitespace/newline/comment; running sum of indent_val over the leaves "
        "never negative and 0 at the end. Non-trivial: tree depth >= 3 with at least one indent/dedent pair; distinct "
        "by SHA-1 of the case."
    )

    def pinned(self, tier):
        # every fixture of every dialect (<= 1500 chars): unmutated fixtures are the best probe for a grammar that
        # emits an Indent without its Dedent in one construct of one dialect
        from vlib import gens

        for d in gens.dialects():
            for r in gens.corpus(d, 1500):
                yield {"dialect": d, "templater": "raw", "sql": r["sql"], "origin": r["name"]}
        yield from lexparse.pinned_cases(tier, 0, 0)

    def strategy(self, tier):
        return lexparse.domain(tier)

    def examples(self, tier):
        return 90 if tier == "quick" else 6000

    def run_case(self, case):
        out = Outcome(labels=lexparse.base_labels(case))
        obs = lexparse.Observation(case, parse=True)
        if obs.crash is not None:
            out.excluded = "config-rejected" if getattr(obs, "config_error", False) else "crash(C04):" + obs.crash.type
            return out
        if not obs.parsed.parsed_variants:
            out.excluded = "no-rendering(TMP)"
            return out
        dialect = case.get("dialect", "ansi")
        for vi, pv in enumerate(obs.parsed.parsed_variants):
            var = "primary" if vi == 0 else "alternate"
            if slicemap_problems(pv.templated_file):
                out.label("excluded-variant:C07")
                continue
            if pv.tree is None:
                out.label("no-tree")
                continue
            tree = pv.tree
            probs, depth = tree_problems(tree)
            seen = set()
            for clause, ntype, detail in probs:
                if (clause, ntype) in seen:
                    continue
                seen.add((clause, ntype))
                out.fail(detail, clause=clause, node_type=ntype, dialect=dialect, variant=var)
            raws = tree.raw_segments
            bal, mn = indent_balance(raws)
            has_unp = any(True for _ in tree.iter_unparsables())
            if has_unp:
                out.label("has-unparsable")
            if mn < 0:
                out.fail(f"indent balance dips to {mn}", clause="indent-negative", dialect=dialect, variant=var,
                         unparsable=has_unp)
            if bal != 0:
                where = imbalance_origin(tree)
                out.fail(f"indent balance ends at {bal} (unbalanced metas directly under {where})", clause="indent-final",
                         dialect=dialect, variant=var, unparsable=has_unp, **({} if has_unp else {"origin": where}))
            n_ind = sum(1 for s in raws if s.is_meta and getattr(s, "indent_val", 0) != 0)
            if depth >= 3 and n_ind >= 2:
                out.nontrivial = True
        return out


CHECK = C03()
