"""C33 Violations are reported once and in source order."""
from hypothesis import strategies as st

from vlib import gens, lintlib
from vlib.framework import Check, Outcome
from vlib.sf import Crash


def fix_key(v):
    """What the proposed fixes would do, in *source* terms (own definition, not sqlfluff's source_signature): edit
    type, the text of the edit segments and their source-level fixes.  Two reports of one violation whose keys are
    equal are plain duplicates; if the keys differ, the variants/iterations really propose different fixes."""
    out = []
    for f in getattr(v, "fixes", None) or []:
        edit = tuple(e.raw for e in f.edit) if f.edit else None
        sfx = tuple((sf.edit, sf.source_slice.start, sf.source_slice.stop)
                    for e in (f.edit or []) for sf in getattr(e, "source_fixes", []) or [])
        out.append((f.edit_type, edit, sfx))
    return tuple(out)


class C33(Check):
    id = "C33"
    level = "exploration"
    rule = (
        "Domain: generated jinja templates (loops, conditionals, several rendering variants; realistic and adversarial "
        "concatenation) whose literals violate layout/capitalisation rules, python/placeholder templates, fixtures of "
        "every dialect unmutated/mutated and generated queries, all rules and rule subsets, lint mode, through "
        "Linter.lint_string. Oracle on LintedFile.violations, get_violations() and get_violations(filter_warning=False)"
        " (what the JSON records hold): tuples (code, line, col, description) are pairwise distinct, and the list is "
        "sorted by (line, col). Non-trivial: the file is templated with a loop or more than one rendering variant and "
        "has at least 2 violations; distinct by SHA-1."
    )

    def pinned(self, tier):
        yield from lintlib.pinned_lint_cases(tier, per_dialect=2, mutants_per_dialect=2, templates=150, salt=33, fix_mode=False)
        # loops / variants whose body carries the classic fixable violations (trailing blanks = delete fixes, double
        # blanks = replace fixes, keyword case, missing final newline) so that every iteration reports them again
        loops = [
            "{% for i in items %}\nSELECT {{ i }}  \nFROM t   \n{% endfor %}\n",
            "SELECT\n{% for c in col_list %}\n    {{ c }},   \n{% endfor %}\n    1 \nFROM t\n",
            "{% for i in [1, 2, 3] %}select  a  from t{{ i }}  \n{% if not loop.last %}union all  \n{% endif %}{% endfor %}",
            "{% if flag %}\nSELECT a  \n{% else %}\nSELECT b  \n{% endif %}\nFROM  t   \n",
            "{% for i in items %}{% for j in [1, 2] %}\nselect '{{ i }}'  ,{{ j }}   \n{% endfor %}{% endfor %}\n",
            "SELECT a   \nFROM t  \n{% for i in range(n) %}\nWHERE  x = {{ i }}  \n{% endfor %}\n",
        ]
        for i, t in enumerate(loops):
            for rules in ("all", "layout", "LT01,LT02,LT12"):
                yield {"dialect": "ansi", "templater": "jinja", "sql": t, "context": dict(gens.JCTX), "rules": rules,
                       "rule_options": {}, "fix": False, "origin": "pinned-loop"}
        for r in gens.templater_corpus():
            if len(r["sql"]) < 700:
                yield {"dialect": "ansi", "templater": "jinja", "sql": r["sql"], "context": dict(gens.JCTX), "rules": "all",
                       "rule_options": {}, "fix": False, "origin": "templater-fixture"}

    def strategy(self, tier):
        jin = st.one_of(gens.jinja_case(profile="realistic", uniform=True), gens.jinja_case(profile="realistic", uniform=True),
                        gens.jinja_case(uniform=True))
        base = st.one_of(jin, jin, jin, gens.pyfmt_case(), gens.placeholder_case(),
                         gens.corpus_case(maxsize=500 if tier == "quick" else 1200), gens.gsql_case(distinct=True, uniform=True))
        return st.tuples(base, st.sampled_from(lintlib.RULE_SELECTIONS[:4]), st.sampled_from(lintlib.RULE_OPTIONS)).map(
            lambda t: dict(t[0], rules=t[1], rule_options=t[2], fix=False))

    def examples(self, tier):
        return 40 if tier == "quick" else 1500

    def run_case(self, case):
        templater = case.get("templater", "raw")
        out = Outcome(labels=["templater:" + templater])
        res, cfg, _ = lintlib.lint(case, fix=False)
        if isinstance(res, Crash):
            out.excluded = "config-rejected" if getattr(res, "config_error", False) else "crash(C04):" + res.type
            return out
        sql = case["sql"]
        loopy = templater == "jinja" and ("{% for" in sql or "{%- for" in sql or "{%+ for" in sql or "{%for" in sql or
                                           "{% if" in sql or "{%if" in sql or "{%- if" in sql or "{%+ if" in sql)
        lists = {"violations": list(res.violations), "get_violations": list(res.get_violations()),
                 "records": list(res.get_violations(filter_warning=False))}
        if loopy and len(lists["violations"]) >= 2:
            out.nontrivial = True
        if loopy:
            out.label("loop-or-branch")
        for name, vs in lists.items():
            tuples = [(v.rule_code(), v.line_no, v.line_pos, v.desc()) for v in vs]
            dups = sorted({t for t in tuples if tuples.count(t) > 1})
            for t in dups[:3]:
                # sqlfluff de-duplicates on a signature that also contains the text of the proposed fixes: the same visible
                # violation survives twice when two variants/iterations propose different fixes (F-C33-a).  That cause is
                # told apart from a de-duplication that does not work with the check's own fix_key().
                sigs = [fix_key(v) for v in vs if (v.rule_code(), v.line_no, v.line_pos, v.desc()) == t]
                cause = "fix-text-differs" if len(set(sigs)) == len(sigs) else "identical-signature"
                out.fail(f"{name}: {t[0]} at {t[1]}:{t[2]} reported {tuples.count(t)} times: {t[3][:80]}", clause="duplicate",
                         where=name, rule=t[0], templated=templater != "raw", cause=cause)
            order = [(t[1], t[2]) for t in tuples]
            if order != sorted(order):
                i = next(i for i in range(1, len(order)) if order[i] < order[i - 1])
                out.fail(f"{name}: {tuples[i][0]} at {order[i]} listed after {tuples[i - 1][0]} at {order[i - 1]}",
                         clause="order", where=name, templated=templater != "raw")
        return out


CHECK = C33()
