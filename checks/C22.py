"""C22 Exit codes reflect only unsuppressed failures."""
import os
from vlib import clilib as C
from vlib.framework import Check, Outcome
from vlib.sf import FORMAT_RULES, Crash, guard

USAGE_KINDS = ["unknown-dialect-cli", "unknown-dialect-cfg", "unknown-templater-cfg", "no-dialect", "bad-option",
               "bad-rule-option", "bad-runaway-limit", "missing-path", "format-rules"]
NOT_DEMANDED = ["unknown-rule-ref", "unknown-exclude-ref"]


def scenario(pick):
    if pick.chance(1, 8):
        kind = pick.choice(USAGE_KINDS)
        sql, names, _, _ = C.content(pick, errors="none", noqa="none", max_parts=2)
        cmd = "format" if kind == "format-rules" else pick.choice(["lint", "fix", "format"])
        return {"sql": sql, "fname": "q.sql", "cfg": {"dialect": "ansi"}, "cmd": cmd, "usage": kind, "pieces": names}
    limit = pick.choice([None, None, None, None, 1, 2])
    focus = pick.chance(1, 3)
    if focus:
        # the corner the statement is about: a TMP/PRS error that is usually suppressed, next to lint violations that are
        # live, warnings or absent, under fix/format
        sql, names, hkind, jinja = C.content(pick, errors="always", noqa="errors", max_parts=2,
                                                  classes=("clean", "fixable", "fixable", "unfixable"))
    else:
        sql, names, hkind, jinja = C.content(pick, errors="some", noqa="errors" if limit else "some", max_parts=3)
    cfg = C.core_cfg(pick, feu=True, disable_noqa=True, templater_jinja=jinja)
    if limit:
        cfg["runaway_limit"] = limit
    if pick.chance(1, 6):
        cfg["large_file_skip_fail"] = True  # nothing is ever skipped here, so it must not matter
    if focus:
        cfg.pop("ignore", None)
        cfg.pop("warnings", None)
        i = pick.choice([None, None, "parsing,templating", "parsing"])
        w = pick.choice([None, "LT01,CP01,LT09,LT02,LT12", "LT01,CP01,LT09,LT02,LT12", "PRS,TMP",
                                  "PRS,TMP,LT01,CP01,LT09,LT02,LT12", "AM01,AL04,LT05"])
        if i:
            cfg["ignore"] = i
        if w:
            cfg["warnings"] = w
    case = {"sql": sql, "fname": "q.sql", "cfg": cfg, "pieces": names,
            "cmd": pick.choice(["fix", "fix", "format"] if focus else ["lint", "lint", "fix", "format"])}
    if pick.chance(1, 4):
        case["fname"] = "sub/q.sql"
        case["sub"] = C.sub_cfg(pick)
    cli = {}
    if pick.chance(1, 5):
        cli["ignore"] = pick.choice([i for i in C.IGNORES if i])
    if case["cmd"] == "fix" and pick.chance(1, 8):
        cli["feu"] = True
    if case["cmd"] == "lint":
        if pick.chance(1, 6):
            cli["nofail"] = True
        cli["format"] = pick.choice(["human", "human", "json", "none", "yaml", "github-annotation-native"])
    if pick.chance(1, 10):
        case["usage"] = pick.choice(NOT_DEMANDED if case["cmd"] != "format" else NOT_DEMANDED[1:])
    if cli:
        case["cli"] = cli
    return case


tp_state, lint_state = C.tp_state, C.lint_state


class C22(Check):
    id = "C22"
    level = "exploration"
    rule = (
        "Scenario = one SQL file composed from pieces of known class (clean / fixable layout+capitalisation / multi-pass "
        "fixable / unfixable AM01,AL04,LT05 / PRS with and without tree / TMP undefined variable, TMP+PRS, fatal template "
        "error), optional noqa comments (plain, by code, PRS/TMP, disable=...), and a project config drawn from dialect, "
        "templater, rules, exclude_rules, warnings (codes, names, PRS/TMP), ignore (parsing/templating/linting/lexing), "
        "fix_even_unparsable, runaway_limit 1-2, disable_noqa, large_file_skip_fail (no file is ever skipped), a nested sub/.sqlfluff, --ignore / --FIX-EVEN-UNPARSABLE / "
        "--nofail / --format on the command line; command lint|fix|format; each case is run twice in real subprocesses "
        "(cwd = fresh project directory): on the path and on stdin with --stdin-filename. One case in eight is a "
        "usage/configuration error (unknown dialect on the command line or in the file, unknown templater, no dialect, "
        "unknown option, invalid rule option, non-integer runaway_limit, missing path, format --rules) expected to exit 2. "
        "Oracle: exit-code model written from the statement, fed with the *unfiltered* violation list (code, line, has-fix) "
        "of an in-process lint_paths(fix=True) run with noqa disabled, the effective settings (root < nested < command "
        "line) and the noqa directives read back from the generated text. Unknown rule references (not demanded) are "
        "generated only to confirm they do not change the code. Non-trivial: removing every suppression (ignore, "
        "warnings, noqa) would change the modelled exit code, or the command is fix/format on a file that has both a "
        "TMP/PRS error and a lint violation. Distinct = SHA-1 of the case."
    )
    assumptions = [
        "The ground truth (which violations exist, which carry a fix) is sqlfluff's own unfiltered in-process result; "
        "only suppression, blocking and the exit code are modelled independently.",
        "format with fix_even_unparsable=True in the config file is not generated (the statement does not say whether "
        "that counts as 'explicitly enabled' for format).",
        "runaway_limit 1-2 is combined only with files that have no noqa on lint rules (the unfiltered ground-truth fix "
        "loop would otherwise differ from the real one).",
    ]
    shrink_budget = 8

    def selftest(self):
        C.selftest_models()
        V = lambda code, fixable=True: {"code": code, "line": 1, "pos": 1, "fixable": fixable, "name": ""}
        assert tp_state([V("LT01")], {}, []) == "none"
        assert tp_state([V("PRS"), V("TMP")], {"ignore": "parsing"}, []) == "live:PRS+TMP"
        assert tp_state([V("PRS")], {"ignore": "parsing"}, []) == "suppressed(ignore):PRS"
        assert tp_state([V("PRS")], {}, [(1, "plain", None)]) == "suppressed(noqa):PRS"
        assert lint_state([V("LT01")], {"warnings": "LT01"}, []) == "warning-only(fixable)"
        assert lint_state([V("AM01", False)], {"warnings": "AM01"}, []) == "warning-only"
        assert lint_state([V("LT01"), V("AM01", False)], {}, []) == "live-unfixable"
        assert lint_state([V("LT01")], {}, [(1, "plain", None)]) == "suppressed-only(noqa)"
        assert lint_state([V("LT01")], {"ignore": "linting"}, [(1, "plain", None)]) == "suppressed-only(ignore)"

    def strategy(self, tier):
        return C.scenarios(scenario)

    def examples(self, tier):
        return 6 if tier == "quick" else 250

    def budget_s(self, tier):
        return 600.0 if tier == "quick" else 1700.0

    # ------------------------------------------------------------------ usage / configuration errors

    def _usage(self, case, out):
        kind = case["usage"]
        cmd = case["cmd"]
        case = dict(case)
        case["cfg"] = dict(case["cfg"])
        extra = []
        target = None
        if kind == "unknown-dialect-cli":
            extra = ["--dialect", "nope"]
        elif kind == "unknown-dialect-cfg":
            case["cfg"]["dialect"] = "nope"
        elif kind == "unknown-templater-cfg":
            case["cfg"]["templater"] = "nope"
        elif kind == "no-dialect":
            case["cfg"].pop("dialect", None)
        elif kind == "bad-option":
            extra = ["--no-such-option"]
        elif kind == "bad-rule-option":
            case["rulecfg"] = {"capitalisation.keywords": {"capitalisation_policy": "bogus"}}
        elif kind == "bad-runaway-limit":
            case["cfg"]["runaway_limit"] = "abc"
        elif kind == "missing-path":
            target = "missing.sql"
        elif kind == "format-rules":
            extra = ["--rules", "LT01"]
        out.label("usage:" + kind, "cmd:" + cmd)
        out.nontrivial = True
        kinds = ("path",) if kind == "missing-path" else ("path", "stdin")
        results = []
        with C.Project(case, "u") as p1, C.Project(case, "u") as p2:
            jobs = [("path", p1, C.CliJob([cmd] + extra + [target or p1.fname], p1.root))]
            if "stdin" in kinds:
                jobs.append(("stdin", p2, C.CliJob([cmd] + extra + ["-", "--stdin-filename", p2.fname], p2.root, stdin=p2.data)))
            for inp, pr, j in jobs:
                results.append((inp, j.result(), pr.read() != pr.data))
        for inp, (rc, so, se), changed in results:
            if rc != 2:
                out.fail("%s %s (%s): exit %s, expected 2; output: %s" % (cmd, inp, kind, rc, (so + se)[-300:]),
                         clause="usage-exit-2", usage=kind, input=inp, got=rc, traceback=C.is_traceback(se))
            if changed:
                out.fail("%s %s (%s): file modified although the run was a usage error" % (cmd, inp, kind),
                         clause="usage-modified", usage=kind, input=inp)
        return out

    # ------------------------------------------------------------------ main

    def run_case(self, case):
        C.prepare_inprocess()
        out = Outcome()
        cmd = case["cmd"]
        if case.get("usage") in USAGE_KINDS:
            return self._usage(case, out)
        cli = case.get("cli") or {}
        eff = C.effective(case)
        directives = C.parse_noqa(case["sql"])
        if cmd == "format" and eff.get("fix_even_unparsable"):
            out.excluded = "format+fix_even_unparsable(config)"
            return out
        if eff.get("runaway_limit") and any(a != "plain" or r is None or set(r) - {"PRS", "TMP"} for _, a, r in directives):
            out.excluded = "runaway_limit+lint-noqa"
            return out
        args = [cmd] + C.cli_opts(case)
        if cli.get("feu"):
            args.append("--FIX-EVEN-UNPARSABLE")
        if cli.get("nofail"):
            args.append("--nofail")
        if cmd == "lint" and cli.get("format") and cli["format"] != "human":
            args += ["--format", cli["format"]]
        if case.get("usage") == "unknown-rule-ref":
            args += ["--rules", (eff.get("rules") or "all") + ",ZZ99"]
        elif case.get("usage") == "unknown-exclude-ref":
            args += ["--exclude-rules", ((eff.get("exclude_rules") + ",") if eff.get("exclude_rules") else "") + "ZZ99"]
        gcase = case
        if cmd == "format":
            gcase = dict(case, cli=dict(cli, rules=FORMAT_RULES))
        # the two CLI runs work in the background (own project copies) while the ground truth is computed in-process
        with C.Project(case, "r") as p1, C.Project(case, "r") as p2:
            path_args = [p1.fname]
            if cmd == "lint" and len(case.get("sql", "")) % 2 == 0:
                # several path arguments: a clean (comment-only) file in a directory of its own is given *after* the
                # target; the exit status must still be the target's
                os.makedirs(os.path.join(p1.root, "zz_clean"), exist_ok=True)
                with open(os.path.join(p1.root, "zz_clean", "clean.sql"), "w") as fh:
                    fh.write("-- nothing to see\n")
                path_args = [p1.fname, "zz_clean"]
                out.label("lint-several-paths")
            jobs = [("path", C.CliJob(args + path_args, p1.root)),
                    ("stdin", C.CliJob(args + ["-", "--stdin-filename", p2.fname], p2.root, stdin=p2.data))]
            gt = guard(C.ground_truth, gcase)
            results = [(inp, j.result()) for inp, j in jobs]
        if isinstance(gt, Crash):
            out.excluded = "crash(C04):%s@%s" % (gt.type, gt.frame)
            return out
        if gt.get("missing"):
            out.excluded = "ground-truth-run-lost-file(C04)"
            return out
        vs = gt["violations"]
        if cmd == "format":
            eff = dict(eff)
            eff.pop("rules", None)
        expected = C.exit_code_model(cmd, vs, eff, directives, nofail=bool(cli.get("nofail")))
        bare = {k: v for k, v in eff.items() if k not in ("ignore", "warnings")}
        bare["disable_noqa"] = True
        unsuppressed = C.exit_code_model(cmd, vs, bare, [], nofail=bool(cli.get("nofail")))
        tp, ls = tp_state(vs, eff, directives), lint_state(vs, eff, directives)
        feu = bool(eff.get("fix_even_unparsable")) and cmd == "fix"
        out.label("cmd:" + cmd, "tp:" + tp.split(":")[0], "lint:" + ls, "expect:%d" % expected)
        if feu:
            out.label("fix_even_unparsable")
        if eff.get("runaway_limit"):
            out.label("runaway_limit")
        if case.get("sub"):
            out.label("nested-config")
        if case.get("usage"):
            out.label("not-demanded:" + case["usage"])
        out.nontrivial = unsuppressed != expected or (cmd != "lint" and tp != "none" and ls != "none")
        if unsuppressed != expected:
            out.label("suppression-decides-exit")
        out.info = {"tp": tp, "lint": ls, "expected": expected}
        for inp, (rc, so, se) in results:
            if C.is_traceback(se) or C.is_traceback(so):
                out.label("cli-traceback")
                out.excluded = "crash(C04):cli-traceback"
                continue
            if rc != expected:
                out.fail(
                    "%s on %s exits %s, model says %s; TMP/PRS: %s; lint: %s; settings %s; unfiltered %s; output tail: %s"
                    % (cmd, inp, rc, expected, tp, ls, eff, [(v["code"], v["line"], v["fixable"]) for v in vs],
                       (so + se)[-200:]),
                    command=cmd, input=inp, tp=tp, lint=ls, feu=feu, expected=expected, got=rc)
        return out


CHECK = C22()
