"""C08 Jinja rendering fidelity: the linted SQL is what Jinja renders."""
import re

from hypothesis import strategies as st

from vlib import gens
from vlib.framework import Check, Outcome
from vlib.sf import Crash, guard
from vlib.tpl import cached_cfg, jinja_parses, plain_env as ref_env, ws_control

MARKER = re.compile(r"\{[{%#]")  # the check's own definition of "contains Jinja markup" (written from the Jinja docs)
UNDEF = "undefined_v"
# names the default configuration (apply_dbt_builtins = True) adds to the context; a template that uses one of them is
# rendered with a context the plain reference does not have, so it is judged only with apply_dbt_builtins = False
DBT_NAMES = {"ref", "source", "function", "config", "var", "is_incremental", "this", "zip_strict", "zip", "return", "test"}

def reference_render(src, ctx):
    return ref_env().from_string(src, globals=dict(ctx)).render()


def undeclared(src, ctx):
    """Names the template looks up that neither the context nor Jinja's own globals define (None: no parse)."""
    from jinja2 import meta

    try:
        names = meta.find_undeclared_variables(ref_env().parse(src))
    except Exception:
        return None
    return sorted(n for n in names if n not in ctx and n not in ref_env().globals)


CONSTRUCTS = [("raw", r"\{%[-+]?\s*raw\b"), ("macro", r"\{%[-+]?\s*(macro|call)\b"), ("set-block", r"\{%[-+]?\s*set\s+\w+\s*[-+]?%\}"),
              ("for", r"\{%[-+]?\s*for\b"), ("if", r"\{%[-+]?\s*if\b"), ("set", r"\{%[-+]?\s*set\b"), ("comment", r"\{#"),
              ("expr", r"\{\{")]


def construct_of(src):
    for name, rx in CONSTRUCTS:
        if re.search(rx, src):
            return name
    return "plain"


# --------------------------------------------------------------------------- generators

FAST_TOKENS = ["{", "}", "%", "#", "}}", "%}", "#}", "{ {", "{ %", "{ #", "\r\n", "\r", "{\n{", "{}", "{a}", "%%", "{-", "-}",
               "${x}", "{\r{", "{\r\n%", "#{", "%{", "{$", "\\{", "{ {x} }", "{'", '{"']
SQL_LITS = ["SELECT ", "a", ", b", "\n", "  ", " FROM t", "\nWHERE x = 1", " + 1", "col", " AS c", ",\n    ", "(", ")", " ", "\n\n",
            "-- c\n", "/* c */", "'s'", " AND y", ";\n", "\t", "'it''s'", '"q"']


@st.composite
def fast_case(draw):
    """Marker-free file: SQL (fixture or fragments) with lone braces, percent, hash, CR / CRLF line ends."""
    if draw(st.booleans()):
        base = draw(gens.corpus_case(maxsize=400, mutate=False))["sql"]
    else:
        base = "".join(draw(st.lists(st.sampled_from(SQL_LITS + FAST_TOKENS), min_size=0, max_size=14)))
    ins = draw(st.lists(st.tuples(st.integers(0, 1000), st.sampled_from(FAST_TOKENS)), min_size=0, max_size=5))
    for pos, tok in ins:
        i = pos * (len(base) + 1) // 1001
        base = base[:i] + tok + base[i:]
    if draw(st.integers(0, 3)) == 0:
        base = base.replace("\n", draw(st.sampled_from(["\r\n", "\r"])))
    # keep it marker-free by construction: split any accidental opener
    while MARKER.search(base):
        base = MARKER.sub(lambda m: m.group(0)[0] + " " + m.group(0)[1], base)
    return {"templater": "jinja", "sql": base, "context": dict(gens.JCTX), "kind": "fast"}


STRING_MARKERS = ["'{{ a }}'", "'{{ x }}'", "-- {{ name }}\n", "/* {# c #} */", "'{% if flag %}y{% endif %}'", "'{# c #}'",
                  "-- {% if false %}\n", "-- {% endif %}\n", "'{{ \"}}\" }}'", "'{{ '{#' }}'", "/* {{ items|join(',') }} */",
                  "'{{- a -}}'", "\"{{ n }}\"", "'{% raw %}{{ x }}{% endraw %}'", "-- {#- c -#} \n"]


@st.composite
def string_marker_case(draw):
    """Files whose only markers are inside SQL strings or comments (Jinja does not know about SQL quoting)."""
    parts = draw(st.lists(st.one_of(st.sampled_from(SQL_LITS), st.sampled_from(STRING_MARKERS)), min_size=1, max_size=9))
    parts.insert(draw(st.integers(0, len(parts))), draw(st.sampled_from(STRING_MARKERS)))
    return {"templater": "jinja", "sql": "".join(parts), "context": dict(gens.JCTX), "kind": "string-marker"}


@st.composite
def comment_only_case(draw):
    """Files whose only Jinja markup is comments (the fast path must not take them)."""
    parts = draw(st.lists(st.sampled_from(SQL_LITS + ["{", "}", "%", "#"]), min_size=0, max_size=8))
    for _ in range(draw(st.integers(1, 3))):
        c = "{#" + draw(st.sampled_from(["", "-", ""])) + draw(st.sampled_from([" c ", "", " {{ x }} ", "\n", " % } "])) \
            + draw(st.sampled_from(["", "-", ""])) + "#}"
        parts.insert(draw(st.integers(0, len(parts))), c)
    return {"templater": "jinja", "sql": "".join(parts), "context": dict(gens.JCTX), "kind": "comment-only"}


UNDEF_TOP = ["{{ undefined_v }}", "{{ undefined_v.attr }}", "{{undefined_v}}", "{{ undefined_v['k'] }}",
             "{% for q in undefined_v %}{% endfor %}", "{{ undefined_v|upper }}", "{{- undefined_v -}}"]


@st.composite
def undefined_top_case(draw):
    """A fully defined template plus an unconditional top-level use of an undefined variable."""
    base = draw(gens.jinja_case(profile="realistic", for_else="empty"))
    use = draw(st.sampled_from(UNDEF_TOP))
    sql = use + base["sql"] if draw(st.booleans()) else base["sql"] + use
    return dict(base, sql=sql, kind="undefined-top")


class C08(Check):
    id = "C08"
    level = "exploration"
    rule = (
        "Domain: (defined) generated Jinja templates, realistic and adversarial concatenation (if/elif/else, for, set, "
        "macro, raw, comments, whitespace control) with a context that defines every referenced name, plus the bundled "
        "templater fixtures; (fast) marker-free files: fixture SQL and fragments with lone { } % # }} %} #} and CR/CRLF "
        "line ends; (string-marker) markers only inside SQL strings/comments; (comment-only) {# #} as only markup; "
        "(undefined-top) defined template plus an unconditional top-level use of an undefined variable; (undefined-any) "
        "undefined variables anywhere. Oracle: Linter.render_string(...).templated_variants[0].templated_str == "
        "jinja2 SandboxedEnvironment(keep_trailing_newline=True, extensions=[do]).from_string(raw source, globals="
        "context).render(); for undefined-top a TMP violation naming the variable must be reported; for undefined-any "
        "a rendering that differs from plain Jinja must come with a TMP violation. Non-trivial: traced template with a "
        "control structure or whitespace control, or a fast-path file containing a brace; distinct by SHA-1."
    )
    assumptions = [
        "The reference gets the raw source; Jinja normalises CR/CRLF itself, sqlfluff does so before templating.",
        "Templates the reference render rejects, files the templater refuses (TMP without output) or skips are outside "
        "the domain (counted). With undefined variables the rendering itself is only judged when no TMP violation "
        "tells the user about it.",
    ]

    def selftest(self):
        assert reference_render("a{% if x %}b{% endif %}\n", {"x": 1}) == "ab\n"
        assert reference_render("a  {#- c #}\n", {}) == "a\n"
        assert reference_render("a\r\nb\rc{ } % # }} %}", {}) == "a\nb\nc{ } % # }} %}"
        assert reference_render("{% for i in [1,2] -%}\n x{{ i }}\n{%- endfor %}", {}) == "x1x2"
        assert reference_render("{% do l.append(1) %}{{ l }}", {"l": []}) == "[1]"
        assert reference_render("{% if u %}x{% endif %}", {}) == ""
        assert undeclared("{{ a }}{{ range(2) }}{% set q = 1 %}{{ q }}{{ zz }}", {"a": 1}) == ["zz"]
        assert construct_of("x {%- for i in y %}") == "for" and construct_of("a { b") == "plain"

    def pinned(self, tier):
        for r in gens.templater_corpus():
            if len(r["sql"]) < (1500 if tier == "quick" else 4000):
                for dbt in (True, False):
                    yield {"templater": "jinja", "sql": r["sql"], "context": dict(gens.JCTX), "kind": "defined",
                           "dbt_builtins": dbt, "origin": "templater-fixture:" + r["name"]}
        for c in gens.corpus_slice(2 if tier == "quick" else 20, maxsize=1200):
            yield {"templater": "jinja", "sql": c["sql"], "context": dict(gens.JCTX), "kind": "fast", "origin": c["origin"]}
        for s in ["", "\n", "{", "}", "{ {", "}}", "%}", "#}", "{\n{ x }}", "a\r\nb\r", "\r", "{}{}", "{ % x %}", "100%", "# c",
                  "{{ a }}", "{# c #}", "{#- c -#}", " {#- c -#} ", "x{# {{ a }} #}y", "{% raw %}{{ a }}{% endraw %}"]:
            yield {"templater": "jinja", "sql": s, "context": dict(gens.JCTX),
                   "kind": "fast" if not MARKER.search(s) else "defined", "origin": "pinned"}

    def strategy(self, tier):
        kw = dict(for_else="empty")
        defined = st.one_of(gens.jinja_case(profile="realistic", **kw), gens.jinja_case(profile="adversarial", **kw),
                            gens.jinja_case(profile="realistic", control_bias=0.15, **kw)).map(
            lambda c: dict(c, kind="defined"))
        undefined_any = gens.jinja_case(undefined=True, **kw).map(lambda c: dict(c, kind="undefined-any"))
        templ = lambda s_: s_.filter(lambda c: len(c["sql"]) <= 1200 and jinja_parses(c["sql"]))  # noqa: E731
        table = {"defined": templ(defined), "undefined-top": templ(undefined_top_case()), "undefined-any": templ(undefined_any),
                 "fast": fast_case(), "string-marker": templ(string_marker_case()), "comment-only": templ(comment_only_case())}
        weights = ["defined"] * 9 + ["undefined-top"] * 2 + ["undefined-any"] * 2 + ["fast"] * 4 + ["string-marker"] * 2 + \
            ["comment-only"] * 2
        return st.tuples(st.sampled_from(weights).flatmap(lambda k: table[k]), st.sampled_from((True, True, False))).map(
            lambda t: dict(t[0], dbt_builtins=t[1]))

    def budget_s(self, tier):
        # safety net only (the case counts are the bound); generous because the box may be shared
        return 420.0 if tier == "quick" else 1700.0

    def examples(self, tier):
        return 400 if tier == "quick" else 20000

    def run_case(self, case):
        from sqlfluff.core import Linter

        sql = case["sql"]
        ctx = case.get("context") or {}
        kind = case.get("kind", "defined")
        path = "fast" if not MARKER.search(sql) else "traced"
        out = Outcome(labels=["kind:" + kind, "path:" + path])
        dbt = case.get("dbt_builtins", True)
        cfg = cached_cfg("jinja", context=ctx, render_variant_limit=1, jinja_opts=None if dbt else {"apply_dbt_builtins": False})
        if not dbt:
            out.label("apply_dbt_builtins=False")
        linter = Linter(config=cfg)
        r = guard(linter.render_string, sql, "t.sql", cfg, "utf8")
        if isinstance(r, Crash):
            out.excluded = "crash(C04):" + r.type
            return out
        tmp = [v.desc() for v in r.templater_violations]
        names = undeclared(sql, ctx)
        if dbt and names and DBT_NAMES.intersection(names):
            out.excluded = "uses-dbt-builtin-with-default-config"
            return out
        ref = guard(reference_render, sql, ctx)
        construct = construct_of(sql)
        ws = ws_control(sql)
        sig = dict(path=path, construct=construct, ws=ws)
        if names:
            out.label("has-undefined")
        # --- undefined variable used unconditionally at top level: the user must be told, by name
        if kind == "undefined-top":
            if not r.templated_variants and not tmp:
                out.excluded = "skipped"
                return out
            if not any(repr(UNDEF) in d and "ndefined" in d for d in tmp):
                fatal = [d for d in tmp if "Unrecoverable" in d or "Failed to parse" in d]
                if fatal:
                    out.excluded = "templater-refused:TMP"
                    return out
                out.fail(f"no TMP violation names {UNDEF!r}; got {tmp[:2]}", clause="undefined-not-reported", **sig)
            out.nontrivial = construct in ("for", "if", "macro", "set-block", "raw") or ws
            return out
        if not r.templated_variants:
            if isinstance(ref, Crash):
                out.excluded = "both-refuse"
            else:
                out.excluded = "templater-refused:TMP" if tmp else "skipped"
                out.label("jinja-renders-but-sqlfluff-" + ("refuses" if tmp else "skips"))
            return out
        got = r.templated_variants[0].templated_str
        if isinstance(ref, Crash):
            out.excluded = "reference-rejects:" + ref.type
            return out
        if names:
            # not fully defined: the rendering is only judged when sqlfluff stays silent about it
            if got != ref and not tmp:
                rx = r"\{%[-+]?\s*(if|elif)\b[^%]*\b(" + "|".join(map(re.escape, names)) + r")\b"
                use = "truth-test" if re.search(rx, sql) else "other"
                out.fail(f"undefined {names}: sqlfluff lints {got[:80]!r}, Jinja renders {ref[:80]!r}, no TMP violation",
                         clause="silent-divergence", path=path, use=use)
            elif got != ref:
                out.label("undefined:diverges-with-TMP")
            else:
                out.label("undefined:same-rendering")
            out.nontrivial = True
            return out
        if got != ref:
            i = next((k for k, (x, y) in enumerate(zip(got, ref)) if x != y), min(len(got), len(ref)))
            out.fail(f"at {i}: sqlfluff {got[max(0, i - 20):i + 30]!r} vs Jinja {ref[max(0, i - 20):i + 30]!r} "
                     f"(lengths {len(got)}/{len(ref)})", clause="render-differs", **sig)
        if tmp:
            out.label("tmp-on-defined-context")
        out.label("construct:" + construct)
        if ws:
            out.label("ws-control")
        if "\r" in sql:
            out.label("has-CR")
        if path == "fast":
            out.nontrivial = "{" in sql or "}" in sql
            if out.nontrivial:
                out.label("fast-with-brace")
        else:
            out.nontrivial = construct in ("for", "if", "macro", "set-block", "raw") or ws
        return out


CHECK = C08()
