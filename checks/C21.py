"""C21 Rule selection is exact and rules are independent.

Three layers:

* select     - generated ``rules`` / ``exclude_rules`` values -> codes of ``Linter(config).get_rulepack().rules`` against the
               reference model (vlib.rulerefs) built from ``Linter.rule_tuples()``;
* synthetic  - a generated rule registry (codes, names, groups, aliases that collide on purpose) registered on a fresh
               RuleSet: the reference map itself (code > name > group > alias) and the selection on top of it;
* indep      - fixture SQL (optionally mutated) x dialect: lint once with every rule, then with generated selections
               (one rule that fired alone, everything but one rule that fired, a generated selection): the violations
               reported under a selection must be exactly the all-rules violations of the selected codes.
"""
from hypothesis import strategies as st

from vlib import gens, pristine, rulerefs
from vlib.framework import Check, Outcome
from vlib.sf import Crash, guard

SPECIAL = set(rulerefs.SPECIALS)

GLOBS = ["L*", "LT0?", "*.keywords", "layout.*", "AL0[1-3]", "C*", "*", "??01", "L0*", "capitalisation*", "*.unique*",
         "L00?", "[AC]*", "*.column", "LT1*", "a*", "*ing*", "ST0[!1]", "??", "L*1"]
UNKNOWN = ["XX99", "lt01", "Core", "L9*", "LT01 LT02", "layout.", "ALL", "none.such", "LT", "L"]
WS = ["", "", "", " ", "  ", "\t"]


def _real_pools():
    """Reference pools; the real names are fetched lazily (sqlfluff must not be imported at module load)."""
    from sqlfluff.core import FluffConfig, Linter

    tuples = Linter(config=FluffConfig(overrides={"dialect": "ansi"})).rule_tuples()
    t4 = [(t.code, t.name, tuple(t.groups), tuple(t.aliases)) for t in tuples]
    return t4


_POOLS = {}


def pools():
    if not _POOLS:
        t4 = _real_pools()
        _POOLS["tuples"] = t4
        _POOLS["map"] = rulerefs.reference_map(t4)
        _POOLS["codes"] = sorted(t[0] for t in t4)
        _POOLS["names"] = sorted(t[1] for t in t4 if t[1])
        _POOLS["groups"] = sorted({g for t in t4 for g in t[2]})
        _POOLS["aliases"] = sorted({a for t in t4 for a in t[3]})
    return _POOLS


# static pools for the strategy (a check module must not import sqlfluff at import time, and a strategy should not
# depend on the tree under test either): prefixes/indices are resolved against the real pools in run_case.
@st.composite
def ref_token(draw):
    kind = draw(st.sampled_from(["code", "code", "name", "group", "group", "alias", "glob", "glob", "all", "core",
                                 "unknown"]))
    if kind in ("code", "name", "group", "alias"):
        return "@%s:%d" % (kind, draw(st.integers(0, 200)))
    if kind == "glob":
        return draw(st.sampled_from(GLOBS))
    if kind == "unknown":
        return draw(st.sampled_from(UNKNOWN))
    return kind


@st.composite
def ref_list_value(draw, allow_none=True, max_items=4):
    if allow_none and draw(st.integers(0, 3)) == 0:
        return None
    n = draw(st.integers(1, max_items))
    items = []
    for _ in range(n):
        items.append(draw(st.sampled_from(WS)) + draw(ref_token()) + draw(st.sampled_from(WS)))
    if draw(st.integers(0, 7)) == 0:
        items.insert(draw(st.integers(0, len(items))), draw(st.sampled_from(["", " "])))  # empty item ",,"
    return ",".join(items)


def resolve(value, fired=None):
    """@kind:i tokens -> real references; @fired:i -> i-th code that fired (dropped when nothing fired)."""
    if value is None:
        return None
    p = pools()
    out = []
    for item in value.split(","):
        core = item.strip()
        if core.startswith("@"):
            kind, _, idx = core[1:].partition(":")
            if kind == "fired":
                if not fired:
                    continue
                rep = fired[int(idx) % len(fired)]
            else:
                pool = p[{"code": "codes", "name": "names", "group": "groups", "alias": "aliases"}[kind]]
                rep = pool[int(idx) % len(pool)]
            item = item.replace(core, rep)
        out.append(item)
    return ",".join(out)


@st.composite
def select_case(draw):
    return {"kind": "select", "rules": draw(ref_list_value()), "exclude": draw(ref_list_value()),
            "via": draw(st.sampled_from(["overrides", "overrides", "string", "list"]))}


# ---- synthetic registry
S_CODES = ["AA01", "AA02", "AB01", "BB01", "BB02", "CC01"]
S_NAMES = ["alpha.one", "alpha.two", "beta", "grp", "core", "alpha", "old", "x.y", ""]
S_GROUPS = ["grp", "core", "alpha", "beta", "alpha.one", "AA01", "BB01", "old", "g.two"]
S_ALIASES = ["old", "L001", "L002", "alpha.one", "beta", "grp", "core", "AA02", "BB02", "legacy", "g.two"]
S_REFS = sorted(set(S_CODES + [n for n in S_NAMES if n] + S_GROUPS + S_ALIASES + ["all", "A*", "*1", "alpha*", "L00?",
                                                                                   "*.*", "zz", "*"]))


@st.composite
def synthetic_case(draw):
    codes = draw(st.lists(st.sampled_from(S_CODES), min_size=1, max_size=5, unique=True))
    names = draw(st.lists(st.sampled_from(S_NAMES), min_size=len(codes), max_size=len(codes)))
    # rule names are unique in practice (they are the configuration section of the rule); keep them unique here
    seen = set()
    man = []
    for c, n in zip(sorted(codes), names):
        if n in seen:
            n = ""
        if n:
            seen.add(n)
        groups = draw(st.lists(st.sampled_from(S_GROUPS), max_size=3, unique=True))
        aliases = draw(st.lists(st.sampled_from(S_ALIASES), max_size=3, unique=True))
        man.append([c, n, ["all"] + groups, aliases])
    pick = st.one_of(st.none(), st.lists(st.sampled_from(S_REFS), min_size=1, max_size=3).map(", ".join))
    return {"kind": "synthetic", "manifest": man, "rules": draw(pick), "exclude": draw(pick)}


@st.composite
def indep_case(draw, dialect_list=None):
    # unmutated fixtures, layout/case mutations that keep the text parsable (so rules still fire), or any mutation
    mode = draw(st.sampled_from(["none", "none", "soft", "soft", "any"]))
    if dialect_list is None and draw(st.integers(0, 2)) == 0:
        dialect_list = ["ansi"]  # a third of the cases: ansi, where the one-rule run is made in a pristine process
    base = draw(gens.corpus_case(dialect_list=dialect_list, maxsize=700, mutate=mode != "none", max_ops=2,
                                 kinds=[7, 8] if mode == "soft" else None))
    sels = [{"rules": "@fired:%d" % draw(st.integers(0, 30)), "exclude": None},
            {"rules": None, "exclude": "@fired:%d" % draw(st.integers(0, 30))},
            {"rules": draw(ref_list_value(allow_none=False)) + ",@fired:%d" % draw(st.integers(0, 30)),
             "exclude": draw(ref_list_value())}]
    base.update({"kind": "indep", "selections": sels})
    return base


def _vt(v):
    return (v.rule_code(), v.line_no, v.line_pos, v.desc())


def _make_config(dialect, rules, exclude, via="overrides"):
    from sqlfluff.core import FluffConfig

    if via == "string":
        lines = ["[sqlfluff]", "dialect = %s" % dialect]
        for key, val in (("rules", rules), ("exclude_rules", exclude)):
            if val is not None:
                lines.append("%s = %s" % (key, val.replace(",", ",\n    ")))
        return FluffConfig.from_string("\n".join(lines) + "\n")
    ov = {"dialect": dialect}
    for key, val in (("rules", rules), ("exclude_rules", exclude)):
        if val is not None:
            ov[key] = [x.strip() for x in val.split(",") if x.strip()] if via == "list" else val
    return FluffConfig(overrides=ov)


def _lint_job(req):
    """One lint through the public entry point -> sorted [code, line, pos, description] (also run in a pristine
    process, see vlib.pristine)."""
    import logging

    from sqlfluff.core import Linter

    logging.disable(logging.CRITICAL)
    lnt = Linter(config=_make_config(req["dialect"], req.get("rules"), req.get("exclude")))
    lf = lnt.lint_string(req["sql"], fname="<c21>")
    return sorted(list(_vt(v)) for v in lf.get_violations())


def _warm():
    """Runs once in the pristine zygote: load the ansi dialect and parse (never lint) a statement, so that the
    one-off import and grammar compilation costs are not paid by every pristine run."""
    from sqlfluff.core import Linter

    for d in PRISTINE_DIALECTS:
        Linter(config=_make_config(d, None, None)).parse_string("SELECT a, b FROM t WHERE c = 1 ORDER BY 1\n")


PRISTINE_DIALECTS = ("ansi",)
_STATE = {"linted_in_process": False}


class C21(Check):
    id = "C21"
    level = "exploration"
    shrink_budget = 24  # one re-evaluation of an independence case is several lints
    rule = (
        "SELECT: pinned = every single reference of the bundled rule set (each code, name, group, alias) once as "
        "`rules` and once as `exclude_rules`, plus hand-written combinations; generated = lists of 1-4 references "
        "(codes, names, groups, aliases, 20 globs incl. character classes, `all`, `core`, unknown references, wrong "
        "case, padding blanks/tabs, empty items) for `rules` and `exclude_rules`, passed as overrides string, as a "
        "list, or through FluffConfig.from_string with continuation lines. Observed: codes of "
        "Linter(config).get_rulepack().rules; oracle: vlib.rulerefs.selection over a reference map built from "
        "Linter.rule_tuples() (selection minus exclusion; nothing configured = all). "
        "SYNTHETIC: 1-5 generated rule classes whose names, groups and aliases collide on purpose, registered on "
        "a fresh RuleSet: RulePack.reference_map must equal the model map (code > name > group > alias) and the "
        "selected codes the model selection. "
        "INDEP: bundled fixtures (<=700 chars, all dialects, half of them with 1-2 mutation operators) linted with "
        "every rule, then (i) with one rule that fired alone, (ii) with everything except one rule that fired, "
        "(iii) with a generated selection/exclusion that includes a rule that fired; pinned slice: every rule "
        "that fired, alone. Oracle: violations under a selection == all-rules violations whose code the model "
        "selects, plus PRS/LXR/TMP (multiset of code,line,pos,description): nothing outside the selection is "
        "reported and no rule's result depends on its neighbours. Lint mode only, configuration otherwise equal. "
        "Non-trivial: select/synthetic = the selection uses a glob or group and an exclusion is configured; "
        "indep = at least 2 rules fired under `all`."
    )
    assumptions = [
        "globs follow fnmatch semantics, case-sensitively, over every kind of reference",
        "a reference that collides with one of a higher class (code > name > group > alias) is dropped entirely",
        "rule names are unique (synthetic registries keep them unique)",
    ]

    def selftest(self):
        rulerefs.selftest()
        p = pools()
        assert len(p["codes"]) > 50 and "LT01" in p["codes"] and "core" in p["groups"] and "L003" in p["aliases"]
        assert resolve(" @code:0 ,LT*,@fired:1", ["AL01", "CP01"]) == " %s ,LT*,CP01" % p["codes"][0]
        assert resolve("@fired:0", []) == "" and resolve(None) is None
        m = p["map"]
        assert rulerefs.selection(p["codes"], m, "L003", None) == {"LT02"}
        assert rulerefs.selection(p["codes"], m, "capitalisation", "CP0[2-5]") == {"CP01"}

    # ---- pinned
    def pinned(self, tier):
        p = pools()
        for kind in ("codes", "names", "groups", "aliases"):
            for r in p[kind]:
                yield {"kind": "select", "rules": r, "exclude": None, "via": "overrides"}
                yield {"kind": "select", "rules": None, "exclude": r, "via": "overrides"}
        for rules, exclude, via in [
            ("all", "L*", "overrides"), ("core", "layout", "string"), ("LT*,CP*", "LT0[1-5], capitalisation.keywords", "string"),
            (" LT01 ,\tLT02,,", None, "string"), ("layout", "L003", "overrides"), ("XX99", None, "overrides"),
            ("XX99,LT01", "XX98", "overrides"), ("lt01", None, "overrides"), ("*", "*", "overrides"),
            (None, "all", "overrides"), ("aliasing.unique", None, "overrides"), ("*.unique*", "AL08", "list"),
            ("L001,L002,L003,L004,L005", "LT02", "list"), ("layout.end-of-file", None, "overrides"),
        ]:
            yield {"kind": "select", "rules": rules, "exclude": exclude, "via": via}
        n = 1 if tier == "quick" else 12
        for c in gens.corpus_slice(n, maxsize=700, offset=3):
            c.update({"kind": "indep", "mutated": 0, "selections": "each-fired"})
            yield c
        # ansi: the one-rule runs happen in a pristine process (see run_indep)
        for c in gens.corpus_slice(12 if tier == "quick" else 120, maxsize=700, dialect_list=["ansi"], offset=1):
            c.update({"kind": "indep", "mutated": 0, "selections": "each-fired"})
            yield c

    def strategy(self, tier):
        return st.one_of(select_case(), select_case(), select_case(), synthetic_case(), synthetic_case(), indep_case())

    def examples(self, tier):
        return 96 if tier == "quick" else 5000

    def budget_s(self, tier):
        return 600.0 if tier == "quick" else 1700.0

    def run_case(self, case):
        k = case.get("kind")
        if k == "select":
            return self.run_select(case)
        if k == "synthetic":
            return self.run_synthetic(case)
        return self.run_indep(case)

    # ---- helpers
    @staticmethod
    def _config(dialect, rules, exclude, via="overrides"):
        return _make_config(dialect, rules, exclude, via)

    @staticmethod
    def _nontrivial_selection(rules, exclude, refmap):
        if not rulerefs.split_list(rules) or not rulerefs.split_list(exclude):
            return False
        for r in rulerefs.split_list(rules):
            if any(ch in r for ch in "*?[") or (r in refmap and len(refmap[r]) > 1):
                return True
        return False

    # ---- select
    def run_select(self, case):
        from sqlfluff.core import Linter

        out = Outcome(labels=["select", "select:via=" + case.get("via", "overrides")])
        p = pools()
        rules, exclude = resolve(case.get("rules")), resolve(case.get("exclude"))
        out.info = {"rules": rules, "exclude_rules": exclude}
        via = case.get("via", "overrides")
        if via == "string" and any(v is not None and not v.strip(", \t") for v in (rules, exclude)):
            via = "overrides"  # an empty value cannot be written in a config file line
        exp = rulerefs.selection(p["codes"], p["map"], rules, exclude)
        res = guard(lambda: sorted(r.code for r in Linter(config=self._config("ansi", rules, exclude, via)).get_rulepack().rules))
        if isinstance(res, Crash):
            return out.fail("rules=%r exclude_rules=%r via=%s: %r" % (rules, exclude, via, res), clause="select-exception",
                            exc=res.type, frame=res.frame)
        out.nontrivial = self._nontrivial_selection(rules, exclude, p["map"])
        for v, nm in ((rules, "rules"), (exclude, "exclude")):
            for r in rulerefs.split_list(v):
                out.label("select:%s:%s" % (nm, self._ref_class(r, p)))
        if not exp:
            out.label("select:empty-result")
        if len(res) != len(set(res)):
            return out.fail("rules=%r exclude_rules=%r: duplicate rule instances %s" % (rules, exclude, res),
                            clause="select-duplicates")
        if set(res) != exp:
            extra, missing = sorted(set(res) - exp), sorted(exp - set(res))
            return out.fail("rules=%r exclude_rules=%r (via %s): extra %s missing %s" % (rules, exclude, via, extra[:8], missing[:8]),
                            clause="select-set", direction="extra" if extra and not missing else (
                                "missing" if missing and not extra else "both"))
        return out

    @staticmethod
    def _ref_class(r, p):
        if any(ch in r for ch in "*?["):
            return "glob"
        if r in ("all", "core"):
            return r
        if r in p["codes"]:
            return "code"
        if r in p["names"]:
            return "name"
        if r in p["groups"]:
            return "group"
        if r in p["aliases"]:
            return "alias"
        return "unknown"

    # ---- synthetic
    def run_synthetic(self, case):
        out = Outcome(labels=["synthetic"])
        man = case["manifest"]
        t4 = [(c, n, tuple(g), tuple(a)) for c, n, g, a in man]
        model_map = rulerefs.reference_map(t4)
        rules, exclude = case.get("rules"), case.get("exclude")
        exp = rulerefs.selection([t[0] for t in t4], model_map, rules, exclude)

        def go():
            from sqlfluff.core import FluffConfig
            from sqlfluff.core.rules.base import BaseRule, RuleSet

            rs = RuleSet(name="c21-synthetic", config_info={})
            for c, n, g, a in t4:
                cls = type(BaseRule)("Rule_" + c, (BaseRule,), {"__doc__": "Synthetic rule %s." % c, "name": n,
                                                                 "groups": tuple(g), "aliases": tuple(a)})
                rs.register(cls)
            ov = {"dialect": "ansi"}
            if rules is not None:
                ov["rules"] = rules
            if exclude is not None:
                ov["exclude_rules"] = exclude
            pack = rs.get_rulepack(FluffConfig(overrides=ov))
            return sorted(r.code for r in pack.rules), {k: set(v) for k, v in pack.reference_map.items()}, \
                {k: set(v) for k, v in rs.rule_reference_map().items()}

        res = guard(go)
        if isinstance(res, Crash):
            return out.fail("manifest=%s rules=%r exclude=%r: %r" % (man, rules, exclude, res), clause="synthetic-exception",
                            exc=res.type, frame=res.frame)
        got, rmap, rmap2 = res
        collisions = []
        names = {n for _, n, _, _ in t4 if n}
        grps = {g for _, _, gs, _ in t4 for g in gs}
        codes = {c for c, _, _, _ in t4}
        als = {a for _, _, _, as_ in t4 for a in as_}
        if grps & names:
            collisions.append("group=name")
        if grps & codes:
            collisions.append("group=code")
        if als & names:
            collisions.append("alias=name")
        if als & grps:
            collisions.append("alias=group")
        if als & codes:
            collisions.append("alias=code")
        for c in collisions:
            out.label("synthetic:collision:" + c)
        out.nontrivial = self._nontrivial_selection(rules, exclude, model_map) or bool(collisions)
        for name, m in (("RulePack.reference_map", rmap), ("RuleSet.rule_reference_map", rmap2)):
            if m != model_map:
                bad = sorted(k for k in set(m) | set(model_map) if m.get(k) != model_map.get(k))
                k0 = bad[0]
                cls_ = ("name" if k0 in names else "") + ("group" if k0 in grps else "") + ("alias" if k0 in als else "") + (
                    "code" if k0 in codes else "")
                return out.fail("manifest=%s: %s[%r]=%s, model says %s" % (man, name, k0, sorted(m.get(k0, [])) if k0 in m else None,
                                                                           sorted(model_map[k0]) if k0 in model_map else None),
                                clause="synthetic-map", collision=cls_)
        if set(got) != exp or len(got) != len(set(got)):
            return out.fail("manifest=%s rules=%r exclude=%r: selected %s, model %s" % (man, rules, exclude, got, sorted(exp)),
                            clause="synthetic-select")
        return out

    # ---- indep
    def _lint(self, case, rules, exclude, fresh=False):
        req = {"dialect": case["dialect"], "sql": case["sql"], "rules": rules, "exclude": exclude}
        if fresh:
            res = pristine.run(_lint_job, req)
            if "ok" not in res:
                c = Crash(RuntimeError(res.get("error", "?")))
                c.type = res.get("error", "?")
                return c
            return [tuple(v) for v in res["ok"]]
        _STATE["linted_in_process"] = True
        res = guard(_lint_job, req)
        return res if isinstance(res, Crash) else [tuple(v) for v in res]

    def run_indep(self, case):
        out = Outcome(labels=["indep", "indep:dialect=" + case["dialect"]])
        if case.get("mutated"):
            out.label("indep:mutated")
        p = pools()
        # the zygote of the pristine runs must be forked before this process has linted anything
        polluted = _STATE["linted_in_process"]
        if pristine.ensure(_lint_job, warm=_warm) and polluted:
            out.label("indep:pristine-zygote-forked-after-in-process-lint")
        base = self._lint(case, None, None)
        if isinstance(base, Crash):
            out.excluded = "crash(C04):%s" % base.type
            return out
        fired = sorted({v[0] for v in base if v[0] not in SPECIAL})
        out.label("indep:fired=%s" % (len(fired) if len(fired) < 4 else "4+"))
        out.nontrivial = len(fired) >= 2
        if any(v[0] in SPECIAL for v in base):
            out.label("indep:has-PRS/LXR/TMP")
        sels = case.get("selections")
        if sels == "each-fired":
            sels = [{"rules": c, "exclude": None} for c in fired[:4 if case["dialect"] in PRISTINE_DIALECTS else 6]]
        n_run = 0
        for sel in sels:
            rules, exclude = resolve(sel.get("rules"), fired), resolve(sel.get("exclude"), fired)
            if not rulerefs.split_list(rules) and not rulerefs.split_list(exclude):
                continue  # nothing fired: the selection would be the all-rules run again
            chosen = rulerefs.selection(p["codes"], p["map"], rules, exclude)
            shape = "single" if len(chosen) == 1 else ("all-but-one" if len(chosen) == len(p["codes"]) - 1 else "mixed")
            # one rule alone, ansi: in a pristine process (nothing has been linted there before, so state kept on
            # classes or modules by earlier crawls cannot make the two runs agree by accident); other dialects (a
            # cold dialect costs seconds per process) and other selections run in-process
            fresh = shape == "single" and case["dialect"] in PRISTINE_DIALECTS
            got = self._lint(case, rules, exclude, fresh=fresh)
            if isinstance(got, Crash):
                out.label("indep:selection-run-crashed(C04)")
                continue
            n_run += 1
            out.label("indep:selection=" + shape + ("(pristine process)" if fresh else ""))
            exp = sorted(v for v in base if v[0] in chosen or v[0] in SPECIAL)
            if got == exp:
                continue
            outside = sorted({v[0] for v in got if v[0] not in chosen and v[0] not in SPECIAL})
            if outside:
                out.fail("rules=%r exclude_rules=%r: reported %s which the selection does not contain. dialect=%s"
                         % (rules, exclude, outside, case["dialect"]), clause="indep-outside-selection", shape=shape)
                continue
            diff_codes = sorted({v[0] for v in set(got) ^ set(exp)} or {v[0] for v in got})
            for code in diff_codes[:3]:
                a = [v[1:] for v in exp if v[0] == code]
                b = [v[1:] for v in got if v[0] == code]
                out.fail("%s under rules=%r exclude_rules=%r reports %d violations, under all rules %d; first difference %s. "
                         "dialect=%s" % (code, rules, exclude, len(b), len(a), sorted(set(a) ^ set(b))[:2], case["dialect"]),
                         clause="indep-differs", rule=code, shape=shape,
                         direction="more-under-selection" if len(b) > len(a) else ("fewer-under-selection" if len(b) < len(a) else "different"))
        if n_run == 0:
            out.label("indep:no-selection-run")
        return out


CHECK = C21()
