"""C12 Fixes are lexically stable: they never merge or split tokens."""
from collections import Counter

from hypothesis import strategies as st

from vlib import fixlib
from vlib.framework import Check, Outcome
from vlib.sf import Crash


def adjacency(tokens):
    """Counter of (left code raw, right code raw, touching?) over consecutive code tokens."""
    out = Counter()
    prev = None
    gap = False
    for raw, kind, _ in tokens:
        if kind == "code":
            if prev is not None:
                out[(prev, raw, not gap)] += 1
            prev = raw
            gap = False
        else:
            gap = True
    return out


def gap_changed(before, after):
    """True when some pair of code tokens touches on one side and is separated on the other."""
    a, b = adjacency(before), adjacency(after)
    pairs = {(l, r) for (l, r, _) in list(a) + list(b)}
    return any(a[(l, r, True)] != b[(l, r, True)] and a[(l, r, False)] != b[(l, r, False)] for l, r in pairs)


class C12(Check):
    id = "C12"
    level = "exploration"
    rule = (
        "Domain: pinned slice of the fixture corpus (every dialect, rule sets format/layout/core/all round-robin) + "
        "generated: fixtures of every dialect (half of them with 1-2 Hypothesis-drawn mutations) and "
        "constructive valid queries with layout noise (G-sql; DISTINCT off because of F-C05-a) x rule selection "
        "{format set, layout, core, all, any single fix-capable rule}; input <= 800 chars (quick); inputs that do not "
        "lex and parse cleanly are excluded by a parse-only pre-check and counted (DESIGN: 'G-mut that still parses'; "
        "next to an unparsable section the API can glue anything, and the CLI refuses to fix such files). Observation: "
        "Linter.lint_string(fix=True) + LintedFile.fix_string(), then the fixed text is lexed again with the dialect "
        "lexer. Oracle: non-meta non-empty leaves of the fixed tree == relexed tokens, pairwise (raw text, coarse kind "
        "whitespace/newline/comment/code; a run of adjacent whitespace leaves counts as one token); failures classified merge/split/shift/retype/text. Cases where sqlfluff "
        "raises or a rule reports 'Unexpected exception' are excluded and counted (C04/C05). Non-trivial: the fix "
        "changed the file and some pair of code tokens that touched is now separated or vice versa."
    )
    assumptions = [
        "'kinds' are compared at the granularity both sides share (whitespace, newline, comment, code): the parser "
        "re-types word/symbol tokens, so lexer types cannot be compared with leaf types one to one; equal text and "
        "equal boundaries determine the lexer type anyway",
        "raw templater only (templated sources are C10's domain)",
    ]

    def selftest(self):
        t = lambda *raws: [(r, "whitespace" if r.isspace() else "code", "x") for r in raws]
        assert fixlib.seq_diff(t("a", " ", "b"), t("a", " ", "b")) is None
        assert fixlib.seq_diff(t("-", "-", "1"), [("--1", "comment", "c")])[0] == "merge"
        assert fixlib.seq_diff(t("a", "b"), t("ab"))[0] == "merge"
        assert fixlib.seq_diff(t("||"), t("|", "|"))[0] == "split"
        assert fixlib.seq_diff(t("a", " ", "b"), t("a", " ", "c"))[0] == "text"
        assert fixlib.seq_diff([("x", "code", "w")], [("x", "comment", "c")])[0] == "retype"
        assert gap_changed(t("a", " ", "+", "b"), t("a", "+", "b"))
        assert not gap_changed(t("a", " ", "+", "b"), t("a", "  ", "+", "b"))
        from sqlfluff.core.rules import get_ruleset

        reg = get_ruleset()._register
        fixable = sorted(c for c, r in reg.items() if r.rule_class.is_fix_compatible)
        assert fixable == sorted(fixlib.SINGLE_RULES), set(fixable) ^ set(fixlib.SINGLE_RULES)

    def pinned(self, tier):
        yield from fixlib.pinned_slice(tier, ["format", "all", "layout", "core"], 8, 30)
        yield from fixlib.structure_family()

    def strategy(self, tier):
        # quick: mutation operators that usually keep the fixture parsable (fewer exclusions); thorough: all operators
        return fixlib.fix_case(tier=tier, kinds=[7, 7, 8, 8, 3, 2, 6, 1, 0] if tier == "quick" else None, structure=True)

    def examples(self, tier):
        return 45 if tier == "quick" else 1500

    def budget_s(self, tier):
        return 400.0 if tier == "quick" else 1700.0

    # ------------------------------------------------------------------
    def judge(self, case):
        """(run, diff) for one case; diff is None when the oracle holds or the case is excluded."""
        run = fixlib.FixRun(case, require_clean=True)
        if run.excluded or not run.changed:
            return run, None
        if run.tree.raw != run.fixed:
            if run.tree.source_fixes:
                # the edit lives in source space (template placeholder, e.g. LT12 on an empty file): no leaves to compare
                run.excluded = "source-space-fix"
                return run, None
            return run, ("tree-raw", [], [])
        rl = run.relexed()
        if isinstance(rl, Crash):
            run.excluded = "crash(C04):" + rl.type
            return run, None
        return run, fixlib.seq_diff(run.tree_tokens(), rl[0])

    @staticmethod
    def classify(diff):
        kind, ta, tb = diff
        left = ta[0][2] if ta else "-"
        right = ta[1][2] if len(ta) > 1 else (tb[1][2] if len(tb) > 1 else "-")
        return kind, left, right

    def run_case(self, case):
        out = Outcome(labels=fixlib.base_labels(case))
        run, diff = self.judge(case)
        if run.excluded:
            out.excluded = run.excluded
            return out
        if not run.changed:
            out.label("fix-unchanged")
            return out
        out.label("fix-changed")
        if diff is not None and diff[0] == "tree-raw":
            # patch application is judged by C30/C11; with the raw templater this should not happen at all
            out.fail(f"fixed tree spells {run.tree.raw[:80]!r} but fix_string gave {run.fixed[:80]!r}",
                     kind="tree-raw-vs-fixed-source")
            return out
        before = fixlib.relex(run.sql, run.config)
        if not isinstance(before, Crash) and gap_changed(before[0], run.tree_tokens()):
            out.nontrivial = True
            out.label("gap-opened-or-closed")
        if diff is None:
            return out
        kind, left, right = self.classify(diff)

        def still(c):
            _, d = self.judge(c)
            return d is not None and self.classify(d) == (kind, left, right)

        rule = fixlib.attribute(case, run.fixing_rules(), still, limit=20)
        ta, tb = diff[1], diff[2]
        out.fail(f"leaves {[t[0] for t in ta][:6]} relex as {[t[0] for t in tb][:6]} in {run.fixed[:120]!r}",
                 kind=kind, rule=rule, left=left, right=right)
        return out


CHECK = C12()
