"""C32 Linting is read-only and repeatable."""
import json
import os
import posixpath

from hypothesis import strategies as st

from vlib import gens
from vlib.framework import Check, Outcome
from vlib.history import World, infra, op_key

DIALECTS = ["ansi", "tsql", "mysql", "sqlite", "bigquery", "postgres"]
NOQA = ["noqa", "noqa: LT01", "noqa: L*", "noqa: P*", "noqa: ?RS", "noqa: PRS", "noqa: T*", "noqa: LXR", "noqa: CP01,LT*",
        "noqa: capitalisation.keywords", "noqa: disable=all", "noqa: enable=all", "noqa: disable=LT01,CP01", "noqa:LT05",
        "noqa: all", "noqa: ??0?", "noqa: layout"]
BROKEN = ["SELECT a ? FROM t1", "SELECT FROM WHERE", "SELECT (a FROM t1", "SELECT a FROM t1 WHERE b = ¬", "SELECT 'abc FROM t1",
          "SELEC a FROM t1", "SELECT a FROM t1 WHERE", "SELECT {{ undefined_v }} FROM t1"]
# noqa references that only differ from a plain code through glob expansion over the rule reference map (PRS/LXR/TMP)
NOQA_SPECIAL = ["noqa: P*", "noqa: ?RS", "noqa: L*", "noqa: *R*", "noqa: PRS", "noqa: LXR", "noqa: T*", "noqa: TMP", "noqa: [PL]*",
                "noqa: disable=P*", "noqa: LT*,?X?"]
DNE = ["LT01", "L*", "LT*,CP01", "P*,LT02", "PRS", "capitalisation", "all", "*"]
CONFIG_STRINGS = [None, None, "[sqlfluff]\ndisable_noqa_except = L*\n", "[sqlfluff]\ndisable_noqa_except = LT01,CP*\n",
                  "[sqlfluff]\ndisable_noqa_except = PRS,LT02\n", "[sqlfluff]\nrules = core\n", "[sqlfluff]\ndisable_noqa = True\n",
                  "[sqlfluff]\nexclude_rules = LT01,LT02\nmax_line_length = 40\n"]
JCTX_INI = "\n".join("%s = %s" % (k, v) for k, v in gens.JCTX.items())
LINT_LIKE = ("lint", "lint_string")


def add_noqa(rnd, sql, p):
    out = []
    for ln in sql.split("\n"):
        if ln.strip() and not ln.lstrip().startswith("--") and "{%" not in ln and "{#" not in ln and rnd.random() < p:
            ln = ln.rstrip() + "  -- " + rnd.choice(NOQA)
        out.append(ln)
    return "\n".join(out)


def gen_sql(rnd, kind):
    g = gens.SqlGen(rnd)
    if kind == "jinja":
        jg = gens.JinjaGen(rnd, profile="realistic", for_else=False, undefined=rnd.random() < 0.15)
        body = jg.block()
        if rnd.random() < 0.6:
            loop = rnd.choice(["{% for i in items %}\nSELECT {{ i }} FROM t1;\n{% endfor %}\n",
                               "SELECT\n{% for c in col_list %}\n    {{ c }}{% if not loop.last %},{% endif %}\n{% endfor %}\nFROM t1\n",
                               "{% if flag %}\nSELECT a  FROM t1\n{% else %}\nSELECT b FROM t2\n{% endif %}\n"])
            body = loop + body if rnd.random() < 0.5 else body + "\n" + loop
        return add_noqa(rnd, body, 0.15)
    parts = [g.finish(g.query()) for _ in range(rnd.randint(1, 3))]
    if kind == "loop":
        # loops only (no if/else, so a single rendering variant): the block tracker sees the same source slices again
        # only when the file is processed again
        loops = ["{% for i in items %}\nSELECT {{ i }} FROM t1;\n{% endfor %}\n",
                 "SELECT\n{% for c in col_list %}\n    {{ c }},\n{% endfor %}\n    1 AS one\nFROM t1;\n",
                 "{% for i in range(n) %}\n{% for c in col_list %}\nSELECT {{ c }}  FROM t{{ i }};\n{% endfor %}\n{% endfor %}\n"]
        return add_noqa(rnd, rnd.choice(loops) + "".join(p.rstrip() + (";\n" if not p.rstrip().endswith(";") else "\n") for p in parts[:1]), 0.15)
    if kind == "broken":
        for _ in range(rnd.randint(1, 2)):
            tail = ("  -- " + rnd.choice(NOQA_SPECIAL)) if rnd.random() < 0.6 else ""
            parts.insert(rnd.randint(0, len(parts)), rnd.choice(BROKEN) + rnd.choice([";", "", ";"]) + tail + rnd.choice(["\n", "\n\n"]))
    sql = "".join(p if p.rstrip(" \n").endswith(";") or "-- noqa" in p or i == len(parts) - 1 else p.rstrip() + ";\n"
                  for i, p in enumerate(parts))
    sql = add_noqa(rnd, sql, 0.35 if kind == "broken" else 0.2)
    if kind == "inline":
        d = rnd.choice(["-- sqlfluff:dialect:" + rnd.choice(DIALECTS), "-- sqlfluff:max_line_length:30",
                        "-- sqlfluff:disable_noqa_except:" + rnd.choice(DNE),
                        "--sqlfluff:rules:capitalisation.keywords:capitalisation_policy:lower",
                        "-- sqlfluff:rules:capitalisation.identifiers:extended_capitalisation_policy:upper",
                        "-- sqlfluff:indentation:tab_space_size:2", "-- sqlfluff:indentation:indent_unit:tab",
                        "-- sqlfluff:layout:type:comma:line_position:leading",
                        "-- sqlfluff:exclude_rules:LT01,LT02", "-- sqlfluff:rules:LT01,LT02,CP01"])
        sql = d + "\n" + sql
    return sql


def gen_case(rnd):
    d0 = rnd.choice(DIALECTS)
    tree = {"proj/.sqlfluff": "[sqlfluff]\ndialect = %s\n\n[sqlfluff:templater:jinja:context]\n%s\n" % (d0, JCTX_INI)}
    dir_meta = {"": {"dialect": d0, "dne": False}}
    d1 = rnd.choice([d for d in DIALECTS if d != d0])
    tree["proj/x/.sqlfluff"] = "[sqlfluff]\ndialect = %s\n" % d1
    dir_meta["x"] = {"dialect": d1, "dne": False}
    dir_meta["x/deep"] = {"dialect": d1, "dne": False}
    if rnd.random() < 0.5:
        d2 = rnd.choice(DIALECTS)
        tree["proj/x/deep/tox.ini"] = "[tox]\nenvlist = py\n\n[sqlfluff]\ndialect = %s\nmax_line_length = 50\n" % d2
        dir_meta["x/deep"] = {"dialect": d2, "dne": False}
    tree["proj/n/.sqlfluff"] = "[sqlfluff]\ndisable_noqa_except = %s\n" % rnd.choice(DNE)
    dir_meta["n"] = {"dialect": d0, "dne": True}
    tree["proj/r/pyproject.toml"] = "[tool.sqlfluff.core]\n%s\n" % rnd.choice(
        ['rules = "core"', 'exclude_rules = "LT01,CP01"', 'disable_noqa = true', 'rules = "LT01,LT02,CP01,AL01"\ndisable_noqa_except = "CP01"'])
    dir_meta["r"] = {"dialect": d0, "dne": "disable_noqa_except" in tree["proj/r/pyproject.toml"]}
    files = {}
    dirs = list(dir_meta)
    # always: one file under the disable_noqa_except config, one broken file outside it, one template
    forced = [("n", rnd.choice(["gsql", "broken", "jinja"])), (rnd.choice(["", "x", "x/deep"]), "broken"),
              (rnd.choice(["", "x", "r"]), rnd.choice(["jinja", "loop"]))]
    rnd.shuffle(forced)
    for i in range(rnd.randint(4, 6)):
        if i < len(forced):
            d, kind = forced[i]
        else:
            d = rnd.choice(dirs)
            kind = rnd.choice(["gsql", "gsql", "broken", "jinja", "loop", "inline", "inline"])
        p = posixpath.join(d, "f%d.sql" % i)
        sql = gen_sql(rnd, kind)
        tree["proj/" + p] = sql
        files[p] = {"dialect": dir_meta[d]["dialect"], "dne": bool(dir_meta[d]["dne"]) or "disable_noqa_except" in sql,
                    "loop": "{% for" in sql, "block": "{%" in sql, "kind": kind}
    paths = sorted(files)
    pool = []
    for p in paths:
        if rnd.random() < 0.8:
            pool.append({"op": "lint", "paths": [p]})
        if rnd.random() < 0.3:
            pool.append({"op": "parse", "path": p})
        if rnd.random() < 0.3:
            pool.append({"op": "render", "path": p})
    pool.append({"op": "lint", "paths": ["."]})
    pool.append({"op": "lint", "paths": [rnd.choice(sorted({posixpath.dirname(p) or "." for p in paths}))]})
    pool.append({"op": "lint", "paths": rnd.sample(paths, 2)})
    for _ in range(rnd.randint(1, 3)):
        pool.append({"op": "lint_string", "sql": gen_sql(rnd, rnd.choice(["gsql", "broken", "broken", "inline"])),
                     "dialect": rnd.choice(DIALECTS), "config_string": rnd.choice(CONFIG_STRINGS)})
    for _ in range(rnd.randint(0, 2)):
        p = rnd.choice(paths + ["."])
        r = rnd.random()
        if r < 0.6:
            extra = rnd.choice([[], [], ["--disable-noqa-except", rnd.choice(DNE)], ["--dialect", rnd.choice(DIALECTS)], ["--disable-noqa"]])
            pool.append({"op": "cli", "json": True, "args": ["lint", "--format", "json"] + extra + [p]})
        elif r < 0.8:
            pool.append({"op": "cli", "args": ["parse", rnd.choice(paths)]})
        else:
            pool.append({"op": "cli", "args": ["render", rnd.choice(paths)]})
    rnd.shuffle(pool)
    # keep the number of distinct lint-like operations (each needs a fresh reference process) bounded
    ops, nlint = [], 0
    for op in pool:
        is_lint = bool(op["op"] in LINT_LIKE or (op["op"] == "cli" and op.get("json")))
        if is_lint and nlint >= 5:
            continue
        nlint += is_lint
        ops.append(op)
        if len(ops) >= 9:
            break
    for op in ops:
        if op["op"] != "cli":
            op["linter"] = "shared" if rnd.random() < 0.7 else "new"
    # the same operation again at a later position, with at least one other operation in between
    lintish = [i for i, op in enumerate(ops) if op["op"] in LINT_LIKE or op.get("json")]
    for _ in range(rnd.randint(2, 4)):
        i = rnd.choice([i for i in lintish if i <= len(ops) - 2] or lintish)
        j = rnd.randint(min(i + 2, len(ops)), len(ops))
        ops.insert(j, dict(ops[i]))
    return {"tree": tree, "files": files, "ops": ops}


def cases(tier):
    """The case is a pure function of one Hypothesis-drawn integer.  Hypothesis always starts a run with its minimal
    example (0), which would be the same case in every shard: it is returned as a marker and counted as excluded
    (examples() asks for one more to make up for it)."""
    import random

    return st.integers(0, 2 ** 62).map(lambda s: {"skip": "hypothesis-minimal-example"} if s == 0 else gen_case(random.Random(s)))


def codes_diff(a, b):
    sa, sb = {tuple(x) for x in a}, {tuple(x) for x in b}
    return ",".join(sorted({x[0] for x in sa ^ sb}))[:60]


def lint_view(res):
    """What 'the violations of a lint' are, for comparison: per file (code, line, pos, description)."""
    if "error" in res:
        return {"error": [res["error"], res.get("frame")]}
    if "files" in res:
        return {p: r["v"] for p, r in res["files"].items()}
    return {"cli-failure": [res.get("rc"), res.get("json_error")]}


class C32(Check):
    id = "C32"
    level = "exploration"
    shrink_fields = ()
    rule = (
        "A case is a generated project (root .sqlfluff with a dialect and a jinja context; nested x/ with another "
        "dialect, x/deep/tox.ini, n/ with disable_noqa_except, r/pyproject.toml with rule selection / disable_noqa) with "
        "4-6 files: generated valid queries with layout noise, broken SQL (parse, lex and templating errors), jinja "
        "templates with loops / if-else blocks / set / macros, loop-only templates, inline `-- sqlfluff:` directives, and noqa comments by "
        "code, name, group, glob (`L*`, `P*`, `?RS`), PRS/LXR/TMP, enable/disable ranges. A history of 9-13 steps is "
        "played in ONE child process: Linter.lint_paths on files / directories / '.', parse_path, render_file, "
        "lint_string in any of 6 dialects with config strings that use disable_noqa_except / disable_noqa / rule "
        "selection, through a shared or a new Linter object, plus `sqlfluff lint --format json / parse / render` "
        "subprocesses; 2-4 lint steps are repeated later with other steps in between. Oracles: (1) after every step "
        "the digest, mtime_ns, size and mode of every file under the project, $HOME and config directories is "
        "unchanged and no file appeared or vanished; (2) every lint step's per-file list of (code, line, position, "
        "description) equals the list produced by the same single operation in a fresh process (memoised per distinct "
        "operation). Non-trivial: the same lint operation occurs at two positions with a different operation between "
        "them (labels say whether that was another dialect, a disable_noqa_except config or a templated loop/block)."
    )
    assumptions = [
        "parse and render results are not compared across processes (the statement only demands identical *lint* "
        "violations); they act as interleaved state-changing steps and are checked for read-only behaviour",
        "atime is not part of 'modify'",
    ]

    def selftest(self):
        from vlib.history_driver import snap_diff

        assert snap_diff({"a": (1,), "b": (2,)}, {"a": (1,), "b": (3,), "c": (4,)}) == ["b", "c"]
        assert lint_view({"files": {"f": {"v": [["LT01", 1, 2, "d"]], "rendered": "x"}}}) == {"f": [["LT01", 1, 2, "d"]]}
        import random

        c = gen_case(random.Random(3))
        keys = [op_key({k: v for k, v in op.items()}) for op in c["ops"]]
        assert len(set(keys)) < len(keys), "generator must repeat an operation"

    def strategy(self, tier):
        return cases(tier)

    def examples(self, tier):
        return (1 if tier == "quick" else 60) + 1

    def budget_s(self, tier):
        # safety net only; VERIF_BUDGET_SCALE stretches it on a busy machine (every case spawns processes)
        return (240.0 if tier == "quick" else 1700.0) * float(os.environ.get("VERIF_BUDGET_SCALE", "1"))

    def run_case(self, case):
        out = Outcome()
        if case.get("skip"):
            out.excluded = case["skip"]
            return out
        ops = case["ops"]
        files = case.get("files", {})
        keys = [op_key(op) for op in ops]

        def touched(op):
            if op["op"] == "lint":
                res = []
                for p in op["paths"]:
                    res += [q for q in files if q == p or p in (".", "") or q.startswith(p.rstrip("/") + "/")]
                return res
            if op["op"] in ("parse", "render"):
                return [op["path"]]
            if op["op"] == "cli":
                return [q for q in files if q == op["args"][-1] or op["args"][-1] == "."]
            return []

        def traits(op):
            t = set()
            for p in touched(op):
                m = files.get(p, {})
                t.add("dialect:" + str(m.get("dialect")))
                if m.get("dne"):
                    t.add("disable_noqa_except")
                if m.get("loop"):
                    t.add("jinja-loop")
                elif m.get("block"):
                    t.add("jinja-block")
            if op["op"] == "lint_string":
                t.add("dialect:" + str(op.get("dialect")))
                if "disable_noqa_except" in (op.get("config_string") or "") or "disable_noqa_except" in op["sql"]:
                    t.add("disable_noqa_except")
            if op["op"] == "cli" and "--disable-noqa-except" in op["args"]:
                t.add("disable_noqa_except")
            return t

        first = {}
        for j, (op, k) in enumerate(zip(ops, keys)):
            is_lint = op["op"] in LINT_LIKE or op.get("json")
            if is_lint and k in first and any(keys[m] != k for m in range(first[k] + 1, j)):
                out.nontrivial = True
                mine = traits(op)
                between = set()
                for m in range(first[k] + 1, j):
                    if keys[m] != k:
                        between |= traits(ops[m])
                        out.label("between:" + ops[m]["op"])
                for t in between:
                    if t.startswith("dialect:"):
                        if t not in mine:
                            out.label("between:other-dialect")
                    else:
                        out.label("between:" + t)
            first.setdefault(k, j)
        for op in ops:
            out.label("op:" + op["op"] + (":" + op["args"][0] if op["op"] == "cli" else ""))

        world = World(case["tree"])
        try:
            steps, rc, err = world.play(ops)
            if rc == "timeout" or (isinstance(rc, int) and rc in (-9, -15) and len(steps) < len(ops)):
                out.excluded = "timeout-or-killed(machine too busy)"
                return out
            if len(steps) < len(ops):
                out.fail("driver stopped after %d/%d steps rc=%s: %s" % (len(steps), len(ops), rc, err[-300:]), clause="driver-died")
                return out
            dirty = False
            for i, (op, s) in enumerate(zip(ops, steps)):
                if s["changed"]:
                    dirty = True
                    out.fail("step %d %s changed %s" % (i, op["op"], s["changed"][:5]), clause="input-modified",
                             op=op["op"] + (":" + op["args"][0] if op["op"] == "cli" else ""))
            if dirty:
                return out
            distinct = {}
            for op, k in zip(ops, keys):
                if op["op"] in LINT_LIKE or op.get("json"):
                    distinct.setdefault(k, dict(op, linter="new") if op["op"] != "cli" else op)
            order = sorted(distinct)
            fresh = dict(zip(order, world.play_fresh([distinct[k] for k in order])))
            for k in order:
                if fresh[k]["changed"]:
                    out.fail("fresh %s changed %s" % (distinct[k]["op"], fresh[k]["changed"][:5]), clause="input-modified",
                             op=distinct[k]["op"])
            seen = {}
            for i, (op, k, s) in enumerate(zip(ops, keys, steps)):
                if k not in fresh:
                    continue
                if infra(s["res"]) or infra(fresh[k]["res"]):
                    out.label("step-not-compared:timeout")
                    continue
                got, ref = lint_view(s["res"]), lint_view(fresh[k]["res"])
                if "error" in got:
                    out.label("step-error:" + str(got["error"][0]))
                if got != ref:
                    where = "first-run" if k not in seen else "repeat"
                    if "error" in got or "error" in ref:
                        out.fail("step %d %s: history %s vs fresh %s" % (i, op["op"], str(got)[:200], str(ref)[:200]),
                                 clause="error-differs", op=op["op"], exc=(got.get("error") or ref.get("error"))[0],
                                 frame=(got.get("error") or ref.get("error"))[1])
                    else:
                        bad = sorted(p for p in set(got) | set(ref) if got.get(p) != ref.get(p))
                        p0 = bad[0]
                        g0, r0 = got.get(p0), ref.get(p0)
                        out.fail("step %d (%s) %s %s: file %s: history %s vs fresh %s" % (
                            i, where, op["op"], op.get("paths") or op.get("args") or "", p0,
                            "missing" if g0 is None else g0[:8], "missing" if r0 is None else r0[:8]),
                            clause="repeatability", op=op["op"], missing=g0 is None or r0 is None,
                            codes=codes_diff(g0 or [], r0 or []))
                seen[k] = i
        finally:
            world.close()
            out.labels = sorted(set(out.labels))
        return out


CHECK = C32()
