"""C20 noqa directives suppress exactly the specified violations.

Two layers in one check:

* unit   - IgnoreMask(...).ignore_masked_violations / generate_warnings_for_unused against a reference model,
           exhaustively for small scope (pinned, independent of the seed) and with Hypothesis for longer lists;
* e2e    - generated SQL files with positioned violations and generated noqa comments, linted through
           Linter.lint_string; ground truth = the same file linted with ``disable_noqa = True``.
"""
import itertools

from hypothesis import strategies as st

from vlib import rulerefs
from vlib.framework import Check, Outcome
from vlib.sf import Crash, guard

# --------------------------------------------------------------------------- reference model (both layers)
#
# A directive is (line, pos, rules, action): rules None = names no rule; action None = plain.
# Source order = (line, pos).


def covers(rules, code):
    return rules is None or code in rules


def hiders(dirs, code, line):
    """Indices of the directives that could account for a violation of `code` on `line` being hidden
    (empty list = the violation must be reported)."""
    cands = []
    for i, (dl, dp, rules, act) in enumerate(dirs):
        if act is None and dl == line and covers(rules, code):
            cands.append(i)
    rng = [(dl, dp, i) for i, (dl, dp, rules, act) in enumerate(dirs)
           if act is not None and dl <= line and covers(rules, code)]
    if rng:
        last = max(rng)[2]
        if dirs[last][3] == "disable":
            cands.append(last)
    return cands


def unused_bounds(dirs, hidden_by):
    """(must_report, must_not_report) over directive indices; enable directives are not judged."""
    cand_any = set()
    sole = set()
    for c in hidden_by:
        cand_any.update(c)
        if len(c) == 1:
            sole.add(c[0])
    never = {i for i, d in enumerate(dirs) if d[3] != "enable" and i not in cand_any}
    sole = {i for i in sole if dirs[i][3] != "enable"}
    return never, sole


# --------------------------------------------------------------------------- unit layer

UNIT_CODES = ("PRS", "TMP", "LXR")  # real error classes carry these codes
RULESETS2 = (None, ("PRS",), ("TMP",), ("PRS", "TMP"))
ACTIONS = (None, "disable", "enable")


def _dopts(nlines=3):
    return [(l, r, a) for l in range(1, nlines + 1) for r in RULESETS2 for a in ACTIONS]


def _vsets(ncodes=2, nlines=3, maxsize=2):
    vopts = [(c, l) for c in UNIT_CODES[:ncodes] for l in range(1, nlines + 1)]
    out = [()]
    for k in range(1, maxsize + 1):
        out.extend(itertools.combinations(vopts, k))
    return out


def _unit_positions(triples):
    """(line, rules, action) in list order -> (line, pos, rules, action) in source order.  Directives of one line
    keep their list order; positions decrease with the line number so that position alone does not order them."""
    per_line = {}
    out = []
    for (l, r, a) in triples:
        k = per_line.get(l, 0)
        per_line[l] = k + 1
        out.append([l, 10 * (9 - l) + k + 1, list(r) if r is not None else None, a])
    out.sort(key=lambda d: (d[0], d[1]))
    return out


def _mk_violation(code, line, pos):
    from sqlfluff.core.errors import SQLLexError, SQLParseError, SQLTemplaterError

    cls = {"PRS": SQLParseError, "TMP": SQLTemplaterError, "LXR": SQLLexError}[code]
    return cls(description="%s@%d:%d" % (code, line, pos), line_no=line, line_pos=pos)


def _run_mask(dirs, viols):
    """-> (kept indices in returned order, set of directive indices reported unused)"""
    from sqlfluff.core.rules.noqa import IgnoreMask, NoQaDirective

    ds = [NoQaDirective(l, p, tuple(r) if r is not None else None, a, "d%d" % i) for i, (l, p, r, a) in enumerate(dirs)]
    vs = [_mk_violation(c, l, p) for (c, l, p) in viols]
    mask = IgnoreMask(ds)
    kept = mask.ignore_masked_violations(list(vs))
    kept_idx = []
    for k in kept:
        kept_idx.append(next((i for i, v in enumerate(vs) if v is k), -1))
    unused = set()
    for w in mask.generate_warnings_for_unused():
        d = w.desc()
        unused.add(int(d[d.index("'d") + 2:].rstrip("'")))
    return kept_idx, unused


def interacts(dirs):
    """Non-trivial rule: a range directive and a plain directive interact on the same rule (the range directive
    is at or before the plain directive's line and their rule sets overlap)."""
    for (l1, _, r1, a1) in dirs:
        if a1 is not None:
            continue
        for (l2, _, r2, a2) in dirs:
            if a2 is None or l2 > l1:
                continue
            if r1 is None or r2 is None or set(r1) & set(r2):
                return True
    return False


# --------------------------------------------------------------------------- e2e layer: file construction

# physical lines of statements; every statement is known to provoke at least one violation under the default rules
STATEMENTS = [
    ["SELECT a  FROM t;"],                      # LT01
    ["SELECT a,b FROM t;"],                     # LT01 LT09
    ["SELECT col_a a FROM foo;"],               # AL02
    ["SELECT a FROM t WHERE a<>1;"],            # LT01 x2, LT14
    ["SELECT A, b FROM t;"],                    # CP02, LT09
    ["SELECT", "    a,", "  b", "FROM t;"],     # LT02 on the third line
    ["SELECT a FROM t WHERE;"],                 # PRS (tree exists)
    ["SELECT \u00ac FROM t;"],                 # LXR + PRS
    ["SELECT a FROM t ;"],                      # CV06 LT01
    ["SELECT a FROM t AS x;"],                  # AL05
    ["SELECT * FROM t JOIN u ON t.a = u.a;"],   # AM04 RF02 AM05
    ["SELECT a as b FROM t;"],                  # CP01
    ["SELECT COUNT(1), sum(a) FROM t;"],        # CV04 CP03 AL03 LT09
    ["SELECT a FROM t WHERE b = NULL;"],        # CV05 LT14
    ["SELECT aaaaaaaaaaaaaaaaaaaa, bbbbbbbbbbbbbbbbbbbbbbbbb, cccccccccccccccccccccccccc, ddddddddd FROM t;"],  # LT05
    ["SELECT a from t;"],                       # CP01
    ["SELECT 1 ;;"],                            # CV06 LT01 ST12
    ["SELECT a", "FROM t", "WHERE a IN (1,2);"],
    ["SELECT a FROM t;"],                       # clean
    [""],                                       # blank line (own-line directives)
]
NOTREE = [["SELECT (a FROM t"], ["SELECT a FROM t WHERE ((b = 1);"]]         # unclosed bracket: no parse tree at all
JINJA_SOFT = [["SELECT {{ undefined_var }} AS c FROM t;"], ["SELECT a  FROM {{ other_undefined }};"]]  # TMP, tree exists
JINJA_FATAL = [["SELECT a FROM t {% if %}"], ["SELECT {{ 1 + }} FROM t;"]]     # fatal TMP: no tree

REFS_CODE = ["LT01", "LT02", "CP01", "CP02", "AL02", "LT05", "LT09", "LT12", "LT14", "CV06", "AL05", "AM04", "RF02",
             "CV04", "CP03", "CV05", "ST12", "AL03", "AM05"]
REFS_NAME = ["layout.spacing", "layout.indent", "capitalisation.keywords", "capitalisation.identifiers",
             "aliasing.column", "layout.long_lines", "layout.select_targets", "convention.terminator",
             "aliasing.unused", "layout.keyword_newline", "references.qualification"]
REFS_GROUP = ["layout", "core", "capitalisation", "aliasing", "convention", "ambiguous", "references", "structure"]
REFS_ALIAS = ["L001", "L006", "L039", "L003", "L010", "L014", "L012", "L016", "L036", "L052", "L025", "L009",
              "layout.end-of-file"]
REFS_GLOB = ["LT*", "LT0?", "L0*", "CP0[12]", "*.spacing", "layout.*", "capitalisation*", "A*", "C*", "?T01", "L00?",
             "aliasing.c*", "L*", "*"]
REFS_SPECIAL = ["PRS", "LXR", "TMP"]
REFS_UNKNOWN = ["XX99", "lt01", "P*S", "Layout", "LT1"]
# globs that would also match the special codes once those are keys of the map (disable_noqa_except mode)
GLOBS_TOUCHING_SPECIALS = {"L*", "*", "P*S"}

EXCEPT_LISTS = ["LT01", "LT01,CP01", "layout", "capitalisation,PRS", "PRS", "L0*", "core", "AL02, LT02", "TMP,LXR",
                "aliasing.column", "CP*", "XX99"]
RULE_SELECTIONS = [None, None, "core", "LT01,LT02,LT09,CP01,CP02,AL02,AL05,CV06,LT05,LT12", "layout,capitalisation"]


def directive_text(d):
    """The comment content of a directive: 'noqa', 'noqa: A,B', 'noqa:disable=A', ..."""
    fmt = d.get("fmt", 0)
    colon = ":" if fmt & 1 else ": "
    sep = ", " if fmt & 2 else ","
    if d["action"] is None:
        if d["refs"] is None:
            return "noqa" if not (fmt & 4) else "noqa" + colon + "all"
        return "noqa" + colon + sep.join(d["refs"])
    body = "all" if d["refs"] is None else sep.join(d["refs"])
    return "noqa" + colon + d["action"] + "=" + body


def build_file(case):
    """-> (sql, directives) ; directives: dicts with line, col, syntax, action, refs, text."""
    out_lines = []
    dirs = []
    for ln, spec in enumerate(case["lines"], start=1):
        code = spec.get("code", "")
        pre = [d for d in spec.get("dirs", []) if d.get("at") == "pre" and d["syntax"] == "block"]
        post_block = [d for d in spec.get("dirs", []) if d.get("at") != "pre" and d["syntax"] == "block"]
        post_inline = [d for d in spec.get("dirs", []) if d["syntax"] == "inline"][:1]
        s = ""
        for d in pre:
            text = directive_text(d)
            dirs.append(dict(d, line=ln, col=len(s) + 1, text=text))
            s += ("/* %s */" if not d.get("fmt", 0) & 8 else "/*%s*/") % text + " "
        s += code
        for d in post_block:
            text = directive_text(d)
            if s:
                s += " "
            dirs.append(dict(d, line=ln, col=len(s) + 1, text=text))
            s += ("/* %s */" if not d.get("fmt", 0) & 8 else "/*%s*/") % text
        for d in post_inline:
            text = directive_text(d)
            if s:
                s += "  " if not d.get("fmt", 0) & 16 else " "
            dirs.append(dict(d, line=ln, col=len(s) + 1, text=text))
            lead = ["-- ", "--", "-- because -- ", "--  "][(d.get("fmt", 0) >> 5) & 3]
            s += lead + text
        out_lines.append(s)
    sql = "\n".join(out_lines) + ("\n" if case.get("final_newline", True) else "")
    return sql, dirs


@st.composite
def ref_list(draw, special_bias=False):
    pools = [REFS_CODE, REFS_CODE, REFS_NAME, REFS_GROUP, REFS_ALIAS, REFS_GLOB, REFS_SPECIAL, REFS_UNKNOWN]
    if special_bias:
        pools = [REFS_SPECIAL, REFS_SPECIAL, REFS_SPECIAL, REFS_CODE, REFS_GLOB, REFS_UNKNOWN]
    n = draw(st.sampled_from([1, 1, 1, 2, 2, 3]))
    return [draw(st.sampled_from(draw(st.sampled_from(pools)))) for _ in range(n)]


@st.composite
def directive(draw, special_bias=False, inline_only=False, theme=None):
    action = draw(st.sampled_from([None, None, None, "disable", "disable", "enable"]))
    if theme is not None and draw(st.booleans()):
        refs = list(theme)
    else:
        refs = None if draw(st.integers(0, 5)) == 0 else draw(ref_list(special_bias))
    syntax = "inline" if inline_only else draw(st.sampled_from(["inline", "inline", "block"]))
    at = "post" if syntax == "inline" else draw(st.sampled_from(["post", "post", "pre"]))
    return {"at": at, "syntax": syntax, "action": action, "refs": refs, "fmt": draw(st.integers(0, 127))}


@st.composite
def e2e_case(draw):
    flavour = draw(st.sampled_from(["tree", "tree", "tree", "tree", "notree", "jinja-soft", "jinja-fatal"]))
    n = draw(st.integers(1, 4))
    stmts = [draw(st.sampled_from(STATEMENTS)) for _ in range(n)]
    templater = "raw"
    if flavour == "notree":
        stmts.insert(draw(st.integers(0, len(stmts))), draw(st.sampled_from(NOTREE)))
    elif flavour == "jinja-soft":
        templater = "jinja"
        stmts.insert(draw(st.integers(0, len(stmts))), draw(st.sampled_from(JINJA_SOFT)))
    elif flavour == "jinja-fatal":
        templater = "jinja"
        stmts.insert(draw(st.integers(0, len(stmts))), draw(st.sampled_from(JINJA_FATAL)))
    special = flavour != "tree"
    # half of the files have a theme: a reference list that many directives share, so that plain and range
    # directives meet on the same rule
    theme = draw(ref_list(special)) if draw(st.booleans()) else None
    lines = []
    for stmt in stmts:
        for code in stmt:
            k = draw(st.sampled_from([0, 0, 1, 1, 1, 2, 3]))
            # files without a parse tree: mostly inline directives (block directives there run into F-C20-a, which
            # would otherwise be hit by a quarter of all generated files)
            inl = flavour in ("notree", "jinja-fatal") and draw(st.integers(0, 3)) != 0
            ds = [draw(directive(special_bias=special and draw(st.booleans()), theme=theme, inline_only=inl))
                  for _ in range(min(k, 1) if inl else k)]
            seen_inline = False
            keep = []
            for d in ds:
                if d["syntax"] == "inline":
                    if seen_inline:
                        d = dict(d, syntax="block")
                    seen_inline = True
                keep.append(d)
            lines.append({"code": code, "dirs": keep})
    exc = draw(st.sampled_from(EXCEPT_LISTS)) if draw(st.integers(0, 3)) == 0 else None
    if exc:
        # in this mode only directives that name rules are in the demanded domain (see `rule`)
        for ln in lines:
            for d in ln["dirs"]:
                if d["refs"] is None:
                    d["refs"] = draw(ref_list(special))
                d["refs"] = [r if r not in GLOBS_TOUCHING_SPECIALS else "LT*" for r in d["refs"]]
    return {"kind": "e2e", "dialect": "ansi", "templater": templater, "rules": draw(st.sampled_from(RULE_SELECTIONS)),
            "except": exc, "lines": lines, "final_newline": draw(st.sampled_from([True, True, True, False]))}


@st.composite
def unit_case(draw):
    nlines = draw(st.integers(2, 6))
    n = draw(st.integers(1, 8))
    rs = st.one_of(st.none(), st.lists(st.sampled_from(UNIT_CODES), min_size=1, max_size=3, unique=True).map(sorted))
    raw = draw(st.lists(st.tuples(st.integers(1, nlines), st.integers(1, 30), rs, st.sampled_from(ACTIONS)),
                        min_size=n, max_size=n, unique_by=lambda d: (d[0], d[1])))
    dirs = sorted(([l, p, r, a] for (l, p, r, a) in raw), key=lambda d: (d[0], d[1]))
    viols = draw(st.lists(st.tuples(st.sampled_from(UNIT_CODES), st.integers(1, nlines), st.integers(1, 40)),
                          min_size=0, max_size=6, unique=True))
    return {"kind": "unit", "dirs": dirs, "viols": [list(v) for v in viols]}


# --------------------------------------------------------------------------- the check


def _vt(v):
    return (v.rule_code(), v.line_no, v.line_pos, v.desc())


class C20(Check):
    id = "C20"
    thorough_pinned = True  # full thorough enumeration observed quiet on the unchanged tree
    level = "exploration"
    shrink_fields = ()
    rule = (
        "UNIT (pinned, exhaustive, seed-independent): every directive list of length 1 and 2, and a fixed "
        "arithmetic sample of 4000 (quick) / all 46656 (thorough) lists of length 3, over 3 lines x rule sets "
        "{none=all,(PRS),(TMP),(PRS,TMP)} x {plain,disable,enable}, several directives per line in both orders, "
        "line positions anti-correlated with line numbers; each list is run against all 22 violation sets of size "
        "<=2 over 2 codes x 3 lines (one framework case = one directive list = 22 oracle evaluations, counted in "
        "classes['unit-oracle-eval']); plus Hypothesis lists of <=8 directives over <=6 lines and 3 codes with <=6 "
        "violations. Observed through IgnoreMask.ignore_masked_violations and generate_warnings_for_unused on real "
        "SQLParseError/SQLTemplaterError/SQLLexError objects. "
        "E2E (generated): 1-5 statements with known positioned violations (LT01/LT02/LT05/LT09/CP01/CP02/AL02/"
        "AL05/CV06/PRS/LXR..., files without a parse tree from an unclosed bracket, Jinja files with an undefined "
        "variable (TMP, tree) or a syntax error (fatal TMP, no tree)); 0-3 generated directives per physical line: "
        "inline '-- noqa', '--noqa:', '-- text -- noqa', block '/* noqa */' before or after the code, plain/"
        "disable=/enable=, references by code, name, group, alias (L0xx, layout.end-of-file), glob, all, PRS/LXR/"
        "TMP and unknown references; config variants rules selection and disable_noqa_except. Ground truth = same "
        "text linted with disable_noqa=True, which must itself equal the lint of the text with every 'noqa' "
        "spelled 'noqx' (turning noqa off hides nothing). Oracle: reported == truth minus model-hidden (multiset "
        "of code,line,pos,description); unused-noqa warnings: never-a-hider must be reported, sole hider must not, "
        "ambiguous attribution and enable directives not judged. Under disable_noqa_except only directives that "
        "name rules are generated (what a bare 'noqa'/'all' means there is not documented: not demanded) and globs "
        "that would match PRS/LXR/TMP are left out. Files without a parse tree get mostly inline directives, because "
        "block directives there run into F-C20-a (pinned reproducers keep it in view); a failure is attributed to "
        "F-C20-a / F-C20-b only when the observation equals the model of that defect exactly. Non-trivial: a range directive and a plain directive interact "
        "on the same rule (unit: overlapping rule sets with the range directive at or before the plain one; e2e: "
        "some true violation is covered both by a plain directive on its line and by a range directive at or "
        "before its line)."
    )
    assumptions = [
        "disable_noqa = True gives the unsuppressed violation list (cross-checked against the same text with the "
        "directives spelled 'noqx', which is an independent way of having no directives)",
        "source order of directives = (line, column); the unit layer hands IgnoreMask the list in that order, as "
        "IgnoreMask.from_tree does",
        "malformed directives ('noqa :', 'disable =', 'disable= all') are outside the generated domain",
    ]

    # ---- self-test of the reference model
    def selftest(self):
        rulerefs.selftest()
        D = [[1, 5, None, "disable"], [2, 1, ["PRS"], None], [3, 1, ["PRS"], "enable"], [3, 9, None, "disable"]]
        assert hiders(D, "PRS", 1) == [0] and hiders(D, "TMP", 2) == [0]
        assert hiders(D, "PRS", 2) == [1, 0]
        assert hiders(D, "PRS", 3) == [3] and hiders(D, "TMP", 3) == [3]
        D2 = [[2, 1, ["PRS"], "disable"], [2, 7, ["PRS"], "enable"]]
        assert hiders(D2, "PRS", 2) == [] and hiders(D2, "PRS", 1) == [] and hiders(D2, "PRS", 3) == []
        D3 = [[2, 1, ["PRS"], "enable"], [2, 7, ["PRS"], "disable"]]
        assert hiders(D3, "PRS", 2) == [1] and hiders(D3, "TMP", 2) == []
        assert hiders([[1, 1, ["TMP"], None]], "TMP", 2) == [] and hiders([[2, 1, ["TMP"], None]], "TMP", 2) == [0]
        assert hiders([[1, 1, [], "disable"]], "TMP", 2) == []
        never, sole = unused_bounds(D, [hiders(D, "PRS", 2)])
        assert never == {3} and sole == set()
        never, sole = unused_bounds(D, [hiders(D, "TMP", 2)])
        assert never == {1, 3} and sole == {0}
        case = {"lines": [{"code": "SELECT 1", "dirs": [
            {"at": "pre", "syntax": "block", "action": "disable", "refs": ["LT01"], "fmt": 0},
            {"at": "post", "syntax": "block", "action": "enable", "refs": None, "fmt": 8 | 1},
            {"at": "post", "syntax": "inline", "action": None, "refs": ["A", "B"], "fmt": 2}]}]}
        sql, dirs = build_file(case)
        assert sql == "/* noqa: disable=LT01 */ SELECT 1 /*noqa:enable=all*/  -- noqa: A, B\n", sql
        assert [(d["line"], d["col"]) for d in dirs] == [(1, 1), (1, 35), (1, 56)], dirs
        assert _unit_positions([(1, None, None), (3, None, "disable"), (1, ("PRS",), "enable")]) == [
            [1, 81, None, None], [1, 82, ["PRS"], "enable"], [3, 61, None, "disable"]]

    # ---- pinned: exhaustive small scope
    def pinned(self, tier):
        opts = _dopts()
        n = len(opts)
        for a in opts:
            yield {"kind": "unit", "dirs": _unit_positions([a]), "viols": None}
        for a in opts:
            for b in opts:
                yield {"kind": "unit", "dirs": _unit_positions([a, b]), "viols": None}
        total = n ** 3
        if tier == "quick":
            idxs = ((i * 7919 + 13) % total for i in range(4000))  # 7919 is coprime to 36**3: 4000 distinct lists
        else:
            idxs = range(total)
        for ix in idxs:
            yield {"kind": "unit", "dirs": _unit_positions([opts[ix // (n * n)], opts[(ix // n) % n], opts[ix % n]]),
                   "viols": None}
        if tier != "quick":
            total4 = n ** 4
            for i in range(30000):
                ix = (i * 1000003 + 7) % total4
                yield {"kind": "unit", "viols": None, "dirs": _unit_positions(
                    [opts[ix // n ** 3], opts[(ix // n ** 2) % n], opts[(ix // n) % n], opts[ix % n]])}

    def strategy(self, tier):
        return st.one_of(unit_case(), e2e_case(), e2e_case(), e2e_case())

    def examples(self, tier):
        return 64 if tier == "quick" else 2500

    def budget_s(self, tier):
        return 300.0 if tier == "quick" else 1700.0

    # ---- dispatch
    def run_case(self, case):
        if case.get("kind") == "unit":
            return self.run_unit(case)
        return self.run_e2e(case)

    # ---- unit layer
    def run_unit(self, case):
        out = Outcome(labels=["unit"])
        dirs = [list(d) for d in case["dirs"]]
        out.nontrivial = interacts(dirs)
        if case.get("viols") is None:
            vsets = [[(c, l, 3 + 2 * k) for k, (c, l) in enumerate(vs)] for vs in _vsets()]
            out.label("unit-exhaustive-len%d" % len(dirs))
        else:
            vsets = [[tuple(v) for v in case["viols"]]]
            out.label("unit-generated")
        if len({d[0] for d in dirs}) < len(dirs):
            out.label("unit:several-directives-on-one-line")
        for viols in vsets:
            out.labels.append("unit-oracle-eval")
            res = guard(_run_mask, dirs, viols)
            if isinstance(res, Crash):
                return out.fail(repr(res), clause="unit-exception", exc=res.type, frame=res.frame)
            kept_idx, unused = res
            hb = [hiders(dirs, c, l) for (c, l, _p) in viols]
            exp_kept = [i for i, h in enumerate(hb) if not h]
            if kept_idx != exp_kept:
                got = set(kept_idx)
                wrong_hidden = [viols[i] for i in exp_kept if i not in got]
                not_hidden = [viols[i] for i in kept_idx if i not in exp_kept and i >= 0]
                direction = "wrongly-hidden" if wrong_hidden else ("not-hidden" if not_hidden else "order-or-identity")
                return out.fail(
                    "directives (line,pos,rules,action)=%s violations (code,line,pos)=%s: kept %s, model keeps %s"
                    % (dirs, viols, kept_idx, exp_kept), clause="unit-hide", direction=direction)
            never, sole = unused_bounds(dirs, [h for h in hb if h])
            if not never <= unused:
                return out.fail("directives %s violations %s: could not have hidden anything %s but reported unused "
                                "only %s" % (dirs, viols, sorted(never), sorted(unused)),
                                clause="unit-unused", kind="missing-warning")
            if sole & unused:
                return out.fail("directives %s violations %s: only possible hider %s reported as unused"
                                % (dirs, viols, sorted(sole & unused)), clause="unit-unused", kind="spurious-warning")
        return out

    # ---- e2e layer
    def _lint(self, sql, case, **over):
        from vlib.sf import mkcfg

        def go():
            from sqlfluff.core import Linter

            kw = dict(over)
            if case.get("rules"):
                kw["rules"] = case["rules"]
            cfg = mkcfg(case.get("dialect", "ansi"), case.get("templater", "raw"), context={}, **kw)
            lnt = Linter(config=cfg)
            lf = lnt.lint_string(sql, fname="<c20>")
            allv = lf.get_violations(warn_unused_ignores=True, filter_warning=False)
            vs = [_vt(v) for v in allv if v.rule_code() != "NOQA"]
            ws = [(v.line_no, v.desc()) for v in allv if v.rule_code() == "NOQA"]
            return vs, ws, lf.tree is not None, lnt

        return guard(go)

    _refmap_cache = None

    def refmap(self, lnt):
        if C20._refmap_cache is None:
            C20._refmap_cache = rulerefs.reference_map(
                (t.code, t.name, tuple(t.groups), tuple(t.aliases)) for t in lnt.rule_tuples())
        return C20._refmap_cache

    def run_e2e(self, case):
        out = Outcome(labels=["e2e"])
        sql, dirs = build_file(case)
        out.info = {"sql": sql[:300]}
        exc = case.get("except")
        if exc:
            # outside the demanded domain in this mode (see `rule`)
            for d in dirs:
                if d["refs"] is None:
                    out.excluded = "except-mode:bare-or-all-directive(not demanded)"
                    return out
                if any(r in GLOBS_TOUCHING_SPECIALS for r in d["refs"]):
                    out.excluded = "except-mode:glob-matching-special-codes(not demanded)"
                    return out
        truth = self._lint(sql, case, disable_noqa=True)
        if isinstance(truth, Crash):
            out.excluded = "crash(C04):%s" % truth.type
            return out
        T, Tw, has_tree, lnt = truth
        neutral = self._lint(sql.replace("noqa", "noqx"), case)
        if isinstance(neutral, Crash):
            out.excluded = "crash(C04):%s" % neutral.type
            return out
        mask_kind = "tree" if has_tree else "source"
        out.label("e2e:mask-from-" + mask_kind, "e2e:templater=" + case.get("templater", "raw"))
        # a rule that fails internally ("Unexpected exception", C05's business) loses its results for the file; the
        # LT05 fix logic looks at the word 'noqa' in trailing comments, so the respelled text can take another path
        broken = {v[0] for v in T + neutral[0] if v[3].startswith("Unexpected exception")}
        if broken:
            out.label("e2e:rule-internal-error(C05)")
        if sorted(v for v in T if v[0] not in broken) != sorted(v for v in neutral[0] if v[0] not in broken) or Tw:
            return out.fail("disable_noqa=True reports %s (+%s warnings); same text without directives reports %s"
                            % (sorted(set(T) ^ set(neutral[0]))[:4], Tw[:2], len(neutral[0])),
                            clause="e2e-noqa-off", mask=mask_kind)
        runs = [("default", {})]
        if exc:
            runs.append(("except", {"disable_noqa_except": exc}))
            out.label("e2e:disable_noqa_except")
        refmap = self.refmap(lnt)
        for d in dirs:
            out.label("e2e:dir:%s/%s" % (d["syntax"], d["action"] or "plain"))
            if d["refs"] is None:
                out.label("e2e:ref:all")
            else:
                for r in d["refs"]:
                    out.label("e2e:ref:" + self.ref_class(r))
        if len({d["line"] for d in dirs}) < len(dirs):
            out.label("e2e:several-directives-on-one-line")
        for mode, over in runs:
            allowed = rulerefs.except_allowed(exc, refmap) if mode == "except" else None
            obs = self._lint(sql, case, **over)
            if isinstance(obs, Crash):
                out.excluded = "crash(C04):%s" % obs.type
                return out
            O, W, _, _ = obs
            md = []
            for d in dirs:
                rules = rulerefs.noqa_rules(d["refs"], refmap, allowed)
                md.append([d["line"], d["col"], rules, d["action"]])
            hb = [hiders(md, c, l) for (c, l, _p, _d) in T]
            # classes
            if any(hb):
                out.label("e2e:something-hidden(%s)" % mode)
            for v, h in zip(T, hb):
                if h:
                    out.label("e2e:hidden(%s):" % mode + (v[0] if v[0] in rulerefs.SPECIALS else "lint"))
                    if any(md[i][3] is None for i in h) and any(md[i][3] for i in h):
                        out.label("e2e:plain+range-both-account")
                pl = any(a is None and l == v[1] and covers(r, v[0]) for (l, _c, r, a) in md)
                rg = any(a is not None and l <= v[1] and covers(r, v[0]) for (l, _c, r, a) in md)
                if pl and rg:
                    out.nontrivial = True
            fails = self.judge(T, O, W, dirs, md, sql, mode, mask_kind)
            if fails:
                # Is the disagreement exactly what an already recorded defect produces?  The observation is compared
                # with the model of that defect; only a perfect match is attributed to it, everything else is raised.
                keep_seen = [i for i, d in enumerate(dirs) if not (mask_kind == "source" and d["syntax"] == "block")]
                unseen_blocks = len(keep_seen) < len(dirs)
                empty_rng = [i for i, m in enumerate(md) if m[3] is not None and m[2] is not None and not m[2]]
                variants = []
                if unseen_blocks:
                    variants.append(("block-directives-unseen-without-tree", keep_seen, False))
                if mode == "except" and empty_rng:
                    variants.append(("empty-ruleset-range-directive-acts-on-all-rules", list(range(len(dirs))), True))
                    if unseen_blocks:
                        variants.append(("block-directives-unseen-without-tree+empty-ruleset-range-directive-acts-on-all-rules",
                                         keep_seen, True))
                for name, keep, widen in variants:
                    dirs_v = [dirs[i] for i in keep]
                    md_v = [list(md[i]) for i in keep]
                    if widen:
                        for m in md_v:
                            if m[3] is not None and m[2] is not None and not m[2]:
                                m[2] = None
                    if not self.judge(T, O, W, dirs_v, md_v, sql, mode, mask_kind):
                        fails = [("%s [observation is exactly what the recorded defect '%s' produces]" % (fails[0][0], name),
                                  {"clause": "e2e-explained", "explained_by": name})]
                        break
                for detail, sig in fails:
                    out.fail(detail, **sig)
        return out

    def judge(self, T, O, W, dirs, md, sql, mode, mask_kind):
        """Compare one observation (reported violations O, unused warnings W) with the model for the directives
        `dirs` / `md` -> list of (detail, signature)."""
        fails = []
        hb = [hiders(md, c, l) for (c, l, _p, _d) in T]
        exp = sorted(v for v, h in zip(T, hb) if not h)
        # (1) hidden exactly
        if sorted(O) != exp:
            extra = list(O)
            for v in exp:
                if v in extra:
                    extra.remove(v)
            missing = list(exp)
            for v in O:
                if v in missing:
                    missing.remove(v)
            for v in extra:
                if v in T:
                    h = hb[T.index(v)]
                    kinds = {dirs[i]["syntax"] for i in h}
                    fails.append(("%s at line %d should be hidden by %s but is reported. sql=%r" % (
                        v[0], v[1], [dirs[i]["text"] for i in h], sql),
                        dict(clause="e2e-hide", direction="not-hidden", mode=mode, mask=mask_kind,
                             code=v[0] if v[0] in rulerefs.SPECIALS else "lint",
                             hider="block" if kinds == {"block"} else ("inline" if kinds == {"inline"} else "mixed"))))
                else:
                    fails.append(("violation %s reported with noqa on but absent with noqa off. sql=%r" % (v, sql),
                                  dict(clause="e2e-hide", direction="new-violation", mode=mode, mask=mask_kind)))
            for v in missing:
                fails.append(("%s at line %d:%d is hidden but no directive accounts for it (directives %s). sql=%r" % (
                    v[0], v[1], v[2], [(d["line"], d["text"]) for d in dirs], sql),
                    dict(clause="e2e-hide", direction="wrongly-hidden", mode=mode, mask=mask_kind,
                         code=v[0] if v[0] in rulerefs.SPECIALS else "lint")))
            return fails
        # (2) unused warnings
        never, sole = unused_bounds(md, [h for h in hb if h])
        keyed = {}
        for i, d in enumerate(dirs):
            keyed.setdefault((d["line"], d["text"]), []).append(i)
        reported = set()
        unknown_w = []
        for (wl, wd) in W:
            hit = [k for k in keyed if k[0] == wl and wd == "Unused noqa: %r" % k[1]]
            if not hit:
                unknown_w.append((wl, wd))
            else:
                reported.add(hit[0])
        if unknown_w:
            fails.append(("unused-noqa warning that matches no directive: %s sql=%r" % (unknown_w[:3], sql),
                          dict(clause="e2e-unused", kind="unattributable-warning", mode=mode, mask=mask_kind)))
        for key, idxs in keyed.items():
            if len(idxs) != 1:
                continue  # same text twice on one line: attribution of the warning is ambiguous
            i = idxs[0]
            d = dirs[i]
            if i in never and key not in reported:
                fails.append(("directive %r on line %d could not hide anything but no unused warning. sql=%r warnings=%s"
                              % (d["text"], d["line"], sql, W),
                              dict(clause="e2e-unused", kind="missing-warning", mode=mode, mask=mask_kind,
                                   syntax=d["syntax"])))
            if i in sole and key in reported:
                fails.append(("directive %r on line %d is the only possible hider of a hidden violation but is "
                              "reported unused. sql=%r" % (d["text"], d["line"], sql),
                              dict(clause="e2e-unused", kind="spurious-warning", mode=mode, mask=mask_kind,
                                   syntax=d["syntax"])))
        return fails

    @staticmethod
    def ref_class(r):
        if r in REFS_SPECIAL:
            return "special"
        if r in REFS_UNKNOWN:
            return "unknown"
        if any(ch in r for ch in "*?["):
            return "glob"
        if r in REFS_GROUP:
            return "group"
        if r in REFS_ALIAS:
            return "alias"
        if r in REFS_NAME:
            return "name"
        return "code"

    def finish(self, tier, merged):
        return {"exhaustive": True,
                "exhaustive_scope": "unit layer: directive lists of length 1-2 (all) and length 3 (%s) over 3 lines x 4 "
                                    "rule sets x 3 actions, each against all violation sets of size <=2 over 2 codes "
                                    "x 3 lines" % ("4000 fixed sample" if tier == "quick" else "all 46656"),
                "unit_oracle_evaluations": int(merged["labels"].get("unit-oracle-eval", 0))}


CHECK = C20()
