"""C16 Fixes preserve query results (differential execution in SQLite)."""
import re
import sqlite3

from hypothesis import strategies as st

from vlib import gens
from vlib.framework import Check, Outcome, digest
from vlib.sf import Crash, guard, mkcfg

EXCLUDED_RULES = "ST06,CV05"
SCHEMA = {"t1": ["a", "b", "c"], "t2": ["a", "d"], "t3": ["k", "v"]}


def mkdb(pop):
    con = sqlite3.connect(":memory:")
    for t, cols in SCHEMA.items():
        con.execute(f"create table {t}({','.join(cols)})")
        rows = pop.get(t) or []
        if rows:
            con.executemany(f"insert into {t} values ({','.join('?' * len(cols))})", [tuple(r) for r in rows])
    return con


def run_query(pop, sql):
    """('ok', sorted multiset of rows as reprs) or ('err', message)."""
    con = mkdb(pop)
    try:
        rows = con.execute(sql).fetchall()
        return "ok", sorted(repr(tuple(r)) for r in rows)
    except (sqlite3.Error, sqlite3.Warning, ValueError) as e:
        return "err", str(e)
    finally:
        con.close()


def err_class(msg):
    """SQLite error message with names and numbers abstracted: 'near ".1": syntax error' -> 'near ".N": syntax error'."""
    m = re.sub(r"(no such column|no such table|ambiguous column name|no such function): .*$", r"\1", msg)
    m = re.sub(r'"([^"]*)"', lambda q: '"' + re.sub(r"\d+", "N", re.sub(r"[A-Za-z_]\w*", "ID", q.group(1))) + '"', m)
    return m[:60]


_IDENTS = {"A", "B", "C", "D", "K", "V", "T1", "T2", "T3", "X", "Y", "J", "TT", "SQ", "SJ", "CTE", "CTE2", "N", "P"}


def introduced_words(original, fixed):
    """Keywords / function names the rewrite introduced (construct class for the signature): 'COALESCE+NOT'."""
    words = lambda s: {w.upper() for w in re.findall(r"[A-Za-z_]+", re.sub(r"'(?:[^']|'')*'|--[^\n]*|/\*.*?\*/", " ", s, flags=re.S))}
    new = {w for w in words(fixed) - words(original) if w not in _IDENTS and not re.fullmatch(r"C\d?|PREP_\w+", w)}
    return "+".join(sorted(new))[:60]


def diff_shape(a, b):
    """a, b: sorted lists of row reprs."""
    if len(a) != len(b):
        return "row-count-differs"
    ca = {r.count(",") for r in a}
    cb = {r.count(",") for r in b}
    # crude column count through eval of the tuple reprs
    try:
        wa = {len(eval(r)) for r in a}
        wb = {len(eval(r)) for r in b}
        if wa != wb:
            return "column-count-differs"
    except Exception:
        pass
    return "values-differ"


PINNED = [
    # hand-written corner of every rewriting rule (all must keep their results)
    "select ifnull(a, b), coalesce(b,c) from t1\n",
    "SELECT DISTINCT(a) FROM t1\n",
    "SELECT DISTINCT (a + b) * 2 FROM t1\n",
    "SELECT DISTINCT(a), b FROM t1\n",
    "select a from t1 where (a + 1) * 2 > 3 and not (b = 1 or c = 2)\n",
    "select a, b from t1 where a != 1 and b <> 2\n",
    "select case when a = 1 then 'x' else case when b = 2 then 'y' else 'z' end end from t1\n",
    "select case when a is null then b else a end, case when a = 1 then b else null end from t1\n",
    "select case when a = 1 then true else false end, case when a > 1 then false else true end from t1\n",
    "select x.a, d from t1 x join t2 y on y.a = x.a\n",
    "select t1.a, d from t1 join t2 using (a)\n",
    "select * from t1 join t2 using (a)\n",
    "select a, t1.b from t1\n",
    "select t1.a, b from t1 where t1.c = 1\n",
    "select x.a from t1 x join t2 where x.a = t2.a\n",
    "select x.a, k from t1 x join t3\n",
    "select c0 from (select a c0, b as c1 from t1 where b is not null) as sq where c1 > 0\n",
    "select x.a, sj.c0 from t1 x join (select a as c0 from t2) as sj on sj.c0 = x.a\n",
    "select a, count(1) from t1 group by 1\n",
    "select a from t1 order by 1 desc limit 2\n",
    "select a, b from t1 order by 1, 2 desc limit 3\n",
    "select a as a, b B from t1 TT\n",
    "select \"a\", \"b\" from \"t1\"\n",
    "with cte as (select a c0 from t1) select c0 from cte union select a from t2\n",
    "select a from t1 union select a from t2\n",
    "SELECT a FROM t1 EXCEPT SELECT a FROM t2;\n",
    "select a - (b - c), a - b - c, (a || b) || c, a * (b + c) from t1\n",
    "select 1 + (select max(a) from t2) from t1\n",
    "select tt.a from t1 as tt left outer join t2 as j on j.a = tt.a and j.d <> tt.b where j.a is null\n",
]


class C16(Check):
    id = "C16"
    level = "exploration"
    rule = (
        "Domain: gens.gsqlx_case (sqlite dialect): generated executable SELECT / CTE / set-operator / subquery queries "
        "over t1(a,b,c), t2(a,d), t3(k,v) with layout and capitalisation noise and the constructs the rewriting rules "
        "look for (IFNULL, redundant brackets, implicit column/table aliases, self aliases, mixed qualified/unqualified "
        "references, != and <>, nested CASE, CASE..ELSE NULL, CASE shapes reducible to COALESCE / boolean, COUNT(1), "
        "subquery in FROM and in JOIN, JOIN without condition, join condition in WHERE, reversed join conditions, "
        "USING, quoted identifiers, ORDER BY with mixed directions, LIMIT only under a total ORDER BY over all output "
        "columns); each query comes with 3 Hypothesis-drawn table populations (NULLs, duplicates, empty tables, mixed "
        "types). Rules: all except ST06 (select-column reordering) and CV05 (NULL comparison rewriting), the two the "
        "statement names; no other rule docstring or docs page documents a change of results. One generated case in "
        "ten also has SELECT DISTINCT (with and without brackets; F-C05-a/F-C13-b make it noisy) and ordinal positions "
        "in ORDER BY / GROUP BY (open finding F-C16-a, 13 % of such queries); the other nine order/group by "
        "expressions or aliases instead. The '==' operator is not generated (the sqlite dialect does not parse it). "
        "Procedure: the original is executed with the standard-library sqlite3 in a "
        "fresh in-memory database per population; queries whose original does not execute, or that sqlfluff cannot "
        "parse, are discarded and counted; the text fixed through Linter.lint_string(fix=True).fix_string() must "
        "execute and return the same multiset of rows (positional tuples, compared by repr so 1 != 1.0 != '1') in "
        "every population. Non-trivial: the fix changed a non-whitespace character; distinct by SHA-1 of the case."
    )
    assumptions = [
        "SQLite 3 semantics only (stdlib sqlite3); generated queries are deterministic (no random(), LIMIT only under a "
        "total order, no bare columns next to aggregates)",
        "result column NAMES are not part of the multiset of rows (capitalisation / aliasing rules may rename columns)",
    ]

    _memo = {}

    def selftest(self):
        gens.tame_tqdm()
        pop = {"t1": [[1, None, "x"], [1, None, "x"], [2, 3, ""]], "t2": [], "t3": [[1, 1.5]]}
        assert run_query(pop, "select a from t1") == ("ok", ["(1,)", "(1,)", "(2,)"])
        assert run_query(pop, "select a from t1 where b is null") != run_query(pop, "select a from t1 where b = null")
        assert run_query(pop, "select a from t2") == ("ok", [])
        assert run_query(pop, "select zz from t1")[0] == "err"
        assert run_query(pop, "select 1") != run_query(pop, "select 1.0") != run_query(pop, "select '1'")
        assert run_query(pop, "select a, c from t1") != run_query(pop, "select c, a from t1")
        assert err_class('near ".1": syntax error') == 'near ".N": syntax error', err_class('near ".1": syntax error')
        assert err_class("no such column: tt.b") == "no such column"
        assert err_class('near "foo": syntax error') == 'near "ID": syntax error'
        assert diff_shape(["(1, 2)"], ["(1, 2, 3)"]) == "column-count-differs" and diff_shape(["(1,)"], []) == "row-count-differs"
        assert diff_shape(["(1,)"], ["(0,)"]) == "values-differ"
        assert introduced_words("select case when a then false else true end - 1", "select not coalesce(a, false) - 1") == "COALESCE+NOT"
        assert introduced_words("select tt.a from t1 tt order by 1", "select tt.a from t1 tt order by tt.tt.1") == ""
        assert introduced_words("select 'x y' -- on\nfrom t1 join t2 using (a)", "select 'x y' from t1 join t2 on t1.a = t2.a") == "ON"

    def pinned(self, tier):
        pops = [
            {"t1": [[1, 2, 3], [1, 2, 3], [None, None, None], [2, None, "x"], [0, 1, 2]], "t2": [[1, 5], [None, 1], [2, 2], [2, 2]],
             "t3": [[1, "x"], [0, None], ["x", 1]]},
            {"t1": [], "t2": [[1, 1]], "t3": []},
            {"t1": [["x", 0, 1.5], [3, 3, 3], [-1, "", None]], "t2": [[3, None], ["x", "x"]], "t3": [[None, None], [3, 3]]},
        ]
        for sql in PINNED:
            yield {"dialect": "sqlite", "sql": sql, "pops": pops, "constructs": ["pinned"], "origin": "pinned"}

    def strategy(self, tier):
        kw = dict(max_len=170, max_depth=1) if tier == "quick" else dict(max_len=320, max_depth=2)
        # 1 case in 10 keeps the features implicated in open findings (ordinal ORDER BY / GROUP BY positions: F-C16-a;
        # SELECT DISTINCT with brackets: F-C05-a / F-C13-b); the rest excludes them by construction
        return st.integers(0, 9).flatmap(
            lambda k: gens.gsqlx_case(distinct=True, distinct_brackets=True, ordinals=True, **kw) if k == 0
            else gens.gsqlx_case(ordinals=False, **kw))

    def examples(self, tier):
        return 32 if tier == "quick" else 2500

    # ------------------------------------------------------------------

    def _fix(self, sql, rules="all", exclude=EXCLUDED_RULES):
        from sqlfluff.core import Linter

        cfg = mkcfg(dialect="sqlite", rules=rules, exclude_rules=exclude)
        lf = guard(Linter(config=cfg).lint_string, sql, fix=True)
        if isinstance(lf, Crash):
            return lf, None
        if lf.tree is None:
            return lf, None
        r = guard(lf.fix_string)
        if isinstance(r, Crash):
            return r, None
        return lf, r[0]

    def _compare(self, pops, base, fixed):
        """None or (clause, detail, err)."""
        for i, pop in enumerate(pops):
            got = run_query(pop, fixed)
            if got[0] == "err":
                return "fixed-does-not-execute", f"population {i}: {got[1]}", err_class(got[1])
            if got != base[i]:
                return ("rows-differ", f"population {i}: original {base[i][1][:6]} ({len(base[i][1])} rows) vs fixed "
                        f"{got[1][:6]} ({len(got[1])} rows)", diff_shape(base[i][1], got[1]))
        return None

    def run_case(self, case):
        # Hypothesis repeats examples fairly often with this generator; a fix costs seconds, so identical cases are
        # answered from a per-process memo (same Outcome, deterministic)
        gens.tame_tqdm()
        key = digest(case)
        hit = self._memo.get(key)
        if hit is not None:
            return hit
        out = self._run_case(case)
        if len(self._memo) < 5000:
            self._memo[key] = out
        return out

    def _run_case(self, case):
        out = Outcome()
        sql, pops = case["sql"], case["pops"]
        for c in case.get("constructs", []):
            out.label("construct:" + c)
        base = [run_query(p, sql) for p in pops]
        if any(b[0] == "err" for b in base):
            out.excluded = "original-does-not-execute"
            return out
        if any(len(b[1]) for b in base):
            out.label("some-population-returns-rows")
        if len({tuple(b[1]) for b in base}) > 1:
            out.label("populations-distinguish")
        lf, fixed = self._fix(sql)
        if isinstance(lf, Crash):
            out.excluded = "crash(C04):" + lf.type
            out.label("crash-frame:" + str(lf.frame))
            return out
        if fixed is None:
            out.excluded = "no-tree"
            return out
        codes = sorted({v.rule_code() for v in lf.violations})
        if any(c in ("PRS", "LXR") for c in codes):
            out.excluded = "sqlfluff-cannot-parse-original(C13/C29)"
            return out
        if fixed == sql:
            out.label("fix-changed-nothing")
            return out
        out.label("fix-changed-file")
        strip = lambda s: re.sub(r"\s+", "", s)
        if strip(fixed) != strip(sql):
            out.nontrivial = True
            out.label("non-whitespace-change")
            if strip(fixed).lower() != strip(sql).lower():
                out.label("non-case-non-whitespace-change")
        for c in codes:
            out.label("violated:" + c)
        bad = self._compare(pops, base, fixed)
        if bad is None:
            return out
        clause, detail, err = bad
        # bisect: which single rule's fix is enough?
        culprit, culprit_text = "combination", fixed
        for code in codes:
            lf1, f1 = self._fix(sql, rules=code, exclude=None)
            if isinstance(lf1, Crash) or f1 is None or f1 == sql:
                continue
            if self._compare(pops, base, f1) is not None:
                culprit, culprit_text = code, f1
                break
        out.fail(f"{detail}; original={sql!r} fixed={fixed!r}", clause=clause, rule=culprit, err=err,
                 introduced=introduced_words(sql, culprit_text))
        return out

    def budget_s(self, tier):
        return 240.0 if tier == "quick" else 1700.0


CHECK = C16()
