"""C01 Lexing is lossless, ordered and total."""
from hypothesis import strategies as st

from vlib import gens, lexparse
from vlib.framework import Check, Outcome
from vlib.sf import Crash, guard
from vlib.tmap import slicemap_problems


def backjump_between(tf, t_lo, t_hi):
    """True when the templater's own slice map steps backwards in the source (loop iteration)
    somewhere in the rendered range [t_lo, t_hi]."""
    prev = None
    for s in tf.sliced_file:
        if s.templated_slice.stop < t_lo:
            prev = s
            continue
        if s.templated_slice.start > t_hi:
            break
        if prev is not None and s.source_slice.start < prev.source_slice.stop:
            return True
        prev = s
    return False


def classify_cause(tf, tok, templater):
    """Coarse cause label computed from the slice map (used in signatures)."""
    ts = tok.pos_marker.templated_slice
    touching = [s for s in tf.sliced_file if s.templated_slice.start < ts.stop and s.templated_slice.stop > ts.start]
    kinds = sorted({s.slice_type for s in touching})
    if backjump_between(tf, ts.start, ts.stop):
        return "token-spans-backjump"
    if len(touching) > 1:
        return "token-spans-slices"
    return "single-slice"


class C01(Check):
    id = "C01"
    level = "exploration"
    rule = (
        "Domain: fixture SQL of all bundled dialects (pinned slice + Hypothesis-chosen, unmutated and with 1-3 "
        "Hypothesis-drawn mutation operators), arbitrary Unicode / SQL-ish text, generated Jinja (realistic and "
        "adversarial concatenation), python-format and placeholder templates; every rendering variant is lexed with "
        "Lexer(config).lex. Oracle: tokens concatenate to the rendered text; non-meta tokens tile it contiguously; "
        "source slices in bounds with start<=stop; identical to rendered slices when untemplated; non-decreasing "
        "unless the templater's own slice map steps back (loop); a token inside a single literal slice maps to exactly "
        "the corresponding source characters; union of token source slices covers the source; "
        "#unlexable tokens == #LXR errors at the same positions; last token end_of_file; no exception; raw inputs that "
        "contain a carriage return are additionally lexed as given (Lexer.lex(str), without the linter's newline "
        "normalisation). "
        "Non-trivial: input has an unlexable token, non-ASCII/control character, unterminated quote/comment "
        "(mutated), or is templated with a non-literal slice; distinct by SHA-1 of the case."
    )
    assumptions = ["A templater refusing a file (SQLFluffSkipFile / templating error without output) is outside the "
                   "domain and counted as excluded"]

    def pinned(self, tier):
        return lexparse.pinned_cases(tier)

    def strategy(self, tier):
        return lexparse.domain(tier)

    def examples(self, tier):
        return 450 if tier == "quick" else 15000

    def run_case(self, case):
        out = Outcome(labels=lexparse.base_labels(case))
        obs = lexparse.Observation(case, parse=False)
        templater = case.get("templater", "raw")
        if obs.crash is not None:
            if getattr(obs, "config_error", False):
                out.excluded = "config-rejected"
                return out
            if obs.crash.type == "SQLFluffSkipFile":
                out.excluded = "templater-skipped-file"
                return out
            # render_string raising is C04's business, except for the raw templater where nothing can refuse
            if templater == "raw":
                return out.fail(repr(obs.crash), clause="g-exception", templater=templater, frame=obs.crash.frame,
                                exc=obs.crash.type)
            out.excluded = "render-crash(C04)"
            return out
        src = obs.source
        if not obs.rendered.templated_variants:
            out.excluded = "no-rendering(TMP)"
            return out
        if any(ord(c) > 127 or (ord(c) < 32 and c not in "\n\t\r") for c in src):
            out.label("non-ascii/control")
            out.nontrivial = True
        for vi, (tf, res) in enumerate(obs.lex_variants()):
            var = "primary" if vi == 0 else "alternate"
            if isinstance(res, Crash):
                out.fail(repr(res), clause="g-exception", templater=templater, frame=res.frame, exc=res.type)
                continue
            toks, lex_errs = res
            tstr = tf.templated_str
            if slicemap_problems(tf):
                # the lexer was handed an inconsistent source map: that is C07's violation, not the lexer's
                out.excluded = "variant-source-map-inconsistent(C07)"
                out.label("excluded-variant:C07")
                continue
            if templater != "raw" and any(s.slice_type != "literal" for s in tf.sliced_file):
                out.nontrivial = True
                out.label("non-literal-slices")
            if vi > 0:
                out.label("alternate-variant")
            # (a)
            joined = "".join(t.raw for t in toks)
            if joined != tstr:
                out.fail(f"concat {joined[:80]!r} != rendered {tstr[:80]!r}", clause="a-concat", templater=templater,
                         variant=var)
                continue
            # (g) eof
            if not toks or not toks[-1].is_type("end_of_file"):
                out.fail("last token is not end_of_file", clause="g-eof", templater=templater, variant=var)
            # (b) (c) (d)
            off = 0
            prev = None
            n_unlex = 0
            unlex_pos = []
            for t in toks:
                pm = t.pos_marker
                ss, ts = pm.source_slice, pm.templated_slice
                if not (0 <= ss.start <= ss.stop <= len(tf.source_str)):
                    out.fail(f"token {t.raw!r} source_slice {ss} (source len {len(tf.source_str)})", clause="c-source-bounds",
                             templater=templater, variant=var, cause=classify_cause(tf, t, templater))
                    break
                if t.is_meta:
                    if not (0 <= ts.start <= ts.stop <= len(tstr)):
                        out.fail(f"meta {t!r} templated_slice {ts}", clause="b-meta-bounds", templater=templater, variant=var)
                        break
                    continue
                if t.is_type("unlexable"):
                    n_unlex += 1
                    unlex_pos.append(pm.source_position())
                if ts.start != off or ts.stop - ts.start != len(t.raw):
                    cause = classify_cause(tf, t, templater)
                    if t.is_type("whitespace") and ts.stop - ts.start > len(t.raw) and cause.startswith("token-spans"):
                        cause = "split-whitespace"
                    out.fail(f"token {t.raw!r} templated_slice {ts} expected start {off} len {len(t.raw)}",
                             clause="b-contiguous", templater=templater, variant=var, cause=cause)
                    break
                off = ts.stop
                # (h) a token that lies inside one literal slice maps to exactly the corresponding source characters
                if templater != "raw" and ts.stop > ts.start:
                    lit = next((s_ for s_ in tf.sliced_file if s_.slice_type == "literal"
                                and s_.templated_slice.start <= ts.start and ts.stop <= s_.templated_slice.stop), None)
                    if lit is not None:
                        d_ = lit.source_slice.start - lit.templated_slice.start
                        if (ss.start, ss.stop) != (ts.start + d_, ts.stop + d_):
                            out.fail(f"token {t.raw!r} inside literal slice {lit.templated_slice}->{lit.source_slice} has "
                                     f"source {ss}, expected {(ts.start + d_, ts.stop + d_)}", clause="h-literal-exact",
                                     templater=templater, variant=var, cause=classify_cause(tf, t, templater))
                            break
                if templater == "raw":
                    if (ss.start, ss.stop) != (ts.start, ts.stop):
                        out.fail(f"token {t.raw!r} source {ss} != templated {ts} in untemplated file", clause="d-identity",
                                 templater=templater, variant=var)
                        break
                elif prev is not None and ss.start < prev.pos_marker.source_slice.start:
                    pts = prev.pos_marker.templated_slice
                    if not backjump_between(tf, pts.start, ts.stop):
                        out.fail(f"source order: {prev.raw!r}@{prev.pos_marker.source_slice} then {t.raw!r}@{ss}",
                                 clause="d-monotone", templater=templater, variant=var,
                                 cause=classify_cause(tf, t, templater))
                        break
                prev = t
            else:
                if off != len(tstr):
                    out.fail(f"final offset {off} != {len(tstr)}", clause="b-final", templater=templater, variant=var)
            # (e) coverage of the source
            covered = bytearray(len(tf.source_str) + 1)
            for t in toks:
                ss = t.pos_marker.source_slice
                if 0 <= ss.start <= ss.stop <= len(tf.source_str):
                    for i in range(ss.start, ss.stop):
                        covered[i] = 1
            missing = [i for i in range(len(tf.source_str)) if not covered[i]]
            if missing:
                i0 = missing[0]
                suffix = missing[-1] == len(tf.source_str) - 1 and all(b - a == 1 for a, b in zip(missing, missing[1:]))
                in_map = any(s_.source_slice.start <= i0 < s_.source_slice.stop for s_ in tf.sliced_file)
                cause = ("trailing-source-only" if suffix and not in_map else
                         ("in-slice-map" if in_map else "interior-not-in-slice-map"))
                out.fail(f"source chars not covered: {len(missing)} starting at {i0}: {tf.source_str[i0:i0 + 30]!r}",
                         clause="e-coverage", templater=templater, variant=var, cause=cause)
            # (f)
            if n_unlex:
                out.label("has-unlexable")
                out.nontrivial = True
            lxr = [e for e in lex_errs]
            if len(lxr) != n_unlex:
                out.fail(f"{n_unlex} unlexable tokens but {len(lxr)} LXR errors", clause="f-lxr-count", templater=templater,
                         variant=var)
            else:
                got = sorted((e.line_no, e.line_pos) for e in lxr)
                if got != sorted(unlex_pos):
                    out.fail(f"LXR positions {got} != unlexable token positions {sorted(unlex_pos)}", clause="f-lxr-pos",
                             templater=templater, variant=var)
        if case.get("mutated"):
            out.nontrivial = True
        if templater == "raw":
            self.lex_unnormalised(out, case, obs)
        return out

    @staticmethod
    def lex_unnormalised(out, case, obs):
        """The linter normalises CR / CRLF to LF before templating, so a bare carriage return never reaches the
        lexer through render_string.  The lexer's own entry point takes any string: lex the text as given."""
        from sqlfluff.core.parser import Lexer

        sql = case["sql"]
        if "\r" not in sql:
            return
        out.label("unnormalised-CR")
        res = guard(lambda: Lexer(config=obs.config).lex(sql))
        if isinstance(res, Crash):
            out.fail(repr(res), clause="g-exception", templater="raw", frame=res.frame, exc=res.type, entry="lex(str)")
            return
        toks, errs = res
        if "".join(t.raw for t in toks) != sql:
            out.fail("lex(str): tokens do not concatenate to the input", clause="a-concat", templater="raw", entry="lex(str)")
            return
        off = 0
        for t in toks:
            if t.is_meta:
                continue
            ts, ss = t.pos_marker.templated_slice, t.pos_marker.source_slice
            if (ts.start, ts.stop) != (off, off + len(t.raw)) or (ss.start, ss.stop) != (ts.start, ts.stop):
                out.fail(f"lex(str): token {t.raw!r} at {ts}/{ss}, expected {off}", clause="b-contiguous", templater="raw",
                         entry="lex(str)", cause="raw")
                return
            off = ts.stop
        n_unlex = sum(1 for t in toks if t.is_type("unlexable"))
        if n_unlex != len(errs):
            out.fail(f"lex(str): {n_unlex} unlexable tokens but {len(errs)} LXR errors", clause="f-lxr-count", templater="raw",
                     entry="lex(str)")


CHECK = C01()
