"""C29 Dialect definitions are complete."""
import inspect

from hypothesis import strategies as st

from vlib import gens
from vlib.framework import Check, Outcome
from vlib.sf import Crash, guard, mkcfg

CHUNK = 200


def walk_dialect(label):
    """Worklist walk from the root segment over every reachable grammar element.

    Returns (n_elements, n_refs, missing {ref: parent}, simple_errors {name: error})."""
    from sqlfluff.core import dialect_selector
    from sqlfluff.core.parser.context import ParseContext
    from sqlfluff.core.parser.grammar.base import BaseGrammar, Ref
    from sqlfluff.core.parser.segments import BaseSegment

    d = dialect_selector(label)
    cfg = mkcfg(dialect=label)
    ctx = ParseContext.from_config(cfg)
    root = d.get_root_segment()
    seen = set()
    stack = [(root, "<root>")]
    missing = {}
    simple_err = {}
    n = 0
    nrefs = 0
    while stack:
        e, parent = stack.pop()
        if id(e) in seen:
            continue
        seen.add(id(e))
        n += 1
        if isinstance(e, Ref):
            nrefs += 1
            try:
                t = d.ref(e._ref)
            except Exception as ex:  # noqa
                missing.setdefault(e._ref, parent)
                t = None
            if t is not None:
                stack.append((t, e._ref))
            if e.exclude is not None:
                stack.append((e.exclude, parent))
            stack.extend((t_, parent) for t_ in (getattr(e, "terminators", None) or []))
            continue
        name = parent
        if inspect.isclass(e) and issubclass(e, BaseSegment):
            name = e.__name__
            mg = getattr(e, "match_grammar", None)
            if mg is not None and not isinstance(mg, (str, bool, int)):
                stack.append((mg, name))
        elif isinstance(e, BaseGrammar):
            for attr in ("_elements", "terminators"):
                stack.extend((t_, parent) for t_ in (getattr(e, attr, None) or []))
            for attr in ("exclude", "delimiter", "start_bracket", "end_bracket", "_segment", "target"):
                v = getattr(e, attr, None)
                if v is not None and not isinstance(v, (str, bool, int)):
                    stack.append((v, parent))
        # simple() must terminate without error for every element whose references resolve
        is_seg = inspect.isclass(e) and issubclass(e, BaseSegment)
        if hasattr(e, "simple") and (not is_seg or getattr(e, "match_grammar", None) is not None):
            try:
                e.simple(parse_context=ctx, crumbs=None)
            except RuntimeError as ex:
                if "KeywordSegment" in str(ex) or "not found in dialect" in str(ex) or "Grammar refers to" in str(ex):
                    pass  # consequence of a dangling reference, reported above
                else:
                    simple_err.setdefault(name, f"{type(ex).__name__}: {str(ex)[:100]}")
            except Exception as ex:
                simple_err.setdefault(name, f"{type(ex).__name__}: {str(ex)[:100]}")
    return n, nrefs, missing, simple_err


class C29(Check):
    id = "C29"
    thorough_pinned = True  # full thorough enumeration observed quiet on the unchanged tree
    level = "exploration"
    rule = (
        "Finite part (pinned, independent of the seed, exhaustive): for every dialect of dialect_readout(): the dialect "
        "loads and expands, a worklist walk from the root segment over match_grammar/_elements/terminators/exclude/"
        "delimiter/brackets/Ref visits every reachable grammar element, every Ref must resolve through dialect.ref, "
        "simple() must terminate without error; the lexer of every dialect is fed every Unicode code point (quick: all "
        "below U+0300 and every 41st above, surrogates excluded; thorough: all) in chunks of 200 and must return tokens "
        "whose concatenation is the input. Generated part: Hypothesis text (full Unicode) x dialect through the lexer. "
        "Non-trivial: a walk case (one per dialect, >1000 elements each) or a lexer case containing a non-ASCII or "
        "control character; distinct by SHA-1 of the case."
    )

    def pinned(self, tier):
        ds = self._dialects()
        for d in ds:
            yield {"dialect": d, "mode": "walk"}
        step = 41 if tier == "quick" else 1
        cps = [c for c in range(0, 0x300)] + [c for c in range(0x300, 0x110000, step)]
        cps = [c for c in cps if not (0xD800 <= c <= 0xDFFF)]
        chunks = [cps[i:i + CHUNK] for i in range(0, len(cps), CHUNK)]
        for d in ds:
            for ch in chunks:
                yield {"dialect": d, "mode": "lex", "sql": "".join(map(chr, ch))}

    def _dialects(self):
        from sqlfluff.core import dialect_readout

        return sorted(dr.label for dr in dialect_readout())

    def strategy(self, tier):
        ds = gens.dialects()
        return st.fixed_dictionaries({
            "dialect": st.sampled_from(ds), "mode": st.just("lex"),
            "sql": st.one_of(st.text(alphabet=st.characters(blacklist_categories=("Cs",)), max_size=60), gens.text_sql(80)),
        })

    def examples(self, tier):
        return 150 if tier == "quick" else 6000

    def selftest(self):
        # the fixture corpus must know about every bundled dialect (and vice versa)
        bundled = set(self._dialects())
        assert set(gens.dialects()) <= bundled, set(gens.dialects()) - bundled

    def run_case(self, case):
        out = Outcome(labels=["mode:" + case["mode"]])
        d = case["dialect"]
        if case["mode"] == "walk":
            res = guard(walk_dialect, d)
            out.nontrivial = True
            if isinstance(res, Crash):
                return out.fail(repr(res), clause="dialect-load", dialect=d, exc=res.type)
            n, nrefs, missing, simple_err = res
            out.info = {"elements": n, "refs": nrefs, "dangling": len(missing)}
            out.label("elements:%dk" % (n // 1000))
            for ref, parent in sorted(missing.items()):
                out.fail(f"{d}: reference {ref!r} (used in {parent}) does not resolve", clause="dangling-ref", dialect=d, ref=ref)
            for name, err in sorted(simple_err.items()):
                out.fail(f"{d}: simple() of {name}: {err}", clause="simple-error", dialect=d, element=name)
            return out
        from sqlfluff.core.parser import Lexer

        sql = case["sql"]
        if any(ord(c) > 127 or ord(c) < 32 for c in sql):
            out.nontrivial = True
        res = guard(lambda: Lexer(config=mkcfg(dialect=d)).lex(sql))
        if isinstance(res, Crash):
            return out.fail(repr(res), clause="lexer-raises", dialect=d, exc=res.type, frame=res.frame)
        toks, errs = res
        if "".join(t.raw for t in toks) != sql:
            out.fail(f"lexer lost characters of {sql[:40]!r}", clause="lexer-lossy", dialect=d)
        n_unlex = sum(1 for t in toks if t.is_type("unlexable"))
        if n_unlex:
            out.label("has-unlexable")
        if n_unlex != len(errs):
            out.fail(f"{n_unlex} unlexable tokens vs {len(errs)} LXR errors", clause="lexer-unlexable-unreported", dialect=d)
        return out

    def finish(self, tier, merged):
        return {"exhaustive": True,
                "exhaustive_scope": "all grammar elements reachable from the root of every bundled dialect; code points: "
                + ("all" if tier == "thorough" else "all < U+0300 and every 41st above")}


CHECK = C29()
