"""C14 Layout fixes change only whitespace."""
from collections import Counter

from hypothesis import strategies as st

from vlib import fixlib
from vlib.framework import Check, Outcome
from vlib.sf import Crash

BLANK = " \t"


@st.composite
def layout_config(draw):
    """Layout configuration variations (JSON-serialisable; consumed by fixlib.make_config)."""
    rc = {}
    b = st.booleans()
    lt = st.sampled_from(["leading", "trailing"])
    if draw(b):
        rc["layout:type:comma"] = {"line_position": draw(lt)}
    if draw(b):
        rc["layout:type:binary_operator"] = {"line_position": draw(lt)}
    if draw(b):
        rc["layout:type:comparison_operator"] = {"line_position": draw(lt)}
    if draw(b):
        ind = {}
        if draw(b):
            ind["indent_unit"] = draw(st.sampled_from(["space", "tab"]))
        if draw(b):
            ind["tab_space_size"] = draw(st.sampled_from([2, 3, 4, 8]))
        for k in ("indented_joins", "indented_ctes", "indented_using_on", "indented_on_contents", "indented_then",
                  "indented_then_contents"):
            if draw(st.integers(0, 3)) == 0:
                ind[k] = draw(b)
        if draw(b):
            ind["implicit_indents"] = draw(st.sampled_from(["forbid", "allow", "require"]))
        if draw(st.integers(0, 3)) == 0:
            ind["trailing_comments"] = draw(st.sampled_from(["before", "after"]))
        if ind:
            rc["indentation"] = ind
    if draw(b):
        rc["core"] = {"max_line_length": draw(st.sampled_from([40, 50, 60, 72, 80, 100, 120]))}
    if draw(st.integers(0, 3)) == 0:
        rc["layout.long_lines"] = {"ignore_comment_lines": draw(b), "ignore_comment_clauses": draw(b)}
    if draw(st.integers(0, 3)) == 0:
        rc["layout.select_targets"] = {"wildcard_policy": draw(st.sampled_from(["single", "multiple"]))}
    if draw(st.integers(0, 3)) == 0:
        rc["layout.newlines"] = {"maximum_empty_lines_inside_statements": draw(st.integers(0, 2)),
                                 "maximum_empty_lines_between_statements": draw(st.integers(0, 3))}
    return rc


PINNED_CONFIGS = [
    {},
    {"layout:type:comma": {"line_position": "leading"}},
    {"layout:type:binary_operator": {"line_position": "trailing"}, "core": {"max_line_length": 50}},
    {"indentation": {"indent_unit": "tab", "tab_space_size": 4}},
    {"indentation": {"implicit_indents": "allow", "tab_space_size": 2}, "core": {"max_line_length": 60}},
    {"indentation": {"indented_joins": True, "indented_ctes": True, "trailing_comments": "after"},
     "core": {"max_line_length": 40}},
]


def profile(tokens):
    """What a whitespace-only edit must preserve: code texts in order, comment multiset, odd blanks."""
    code = [t[0] for t in tokens if t[1] == "code"]
    comments = Counter(t[0] for t in tokens if t[1] == "comment")
    odd = Counter(ch for t in tokens if t[1] == "whitespace" for ch in t[0] if ch not in BLANK)
    return code, comments, odd


def shape(tokens):
    """(line break present before code token i, comment present before code token i) for the non-trivial rule."""
    breaks, comm = [], []
    nl = cm = False
    for raw, kind, _ in tokens:
        if kind == "code":
            breaks.append(nl)
            comm.append(cm)
            nl = cm = False
        elif kind == "newline":
            nl = True
        elif kind == "comment":
            cm = True
    return breaks, comm


def _squash(s):
    return "".join(s.split())


def compare(before, after):
    """List of (kind, how, detail, first_type)."""
    import difflib

    fails = []
    cb, mb, ob = profile(before)
    ca, ma, oa = profile(after)
    lost_comments = list((mb - ma).elements())
    new_comments = list((ma - mb).elements())
    swallowed = False
    if cb != ca:
        i = fixlib.first_diff(cb, ca)
        tb = [t for t in before if t[1] == "code"]
        ftype = tb[i][2] if i < len(tb) else "-"
        lost_code = []
        for tag, i1, i2, _, _ in difflib.SequenceMatcher(None, cb, ca, autojunk=False).get_opcodes():
            if tag in ("delete", "replace"):
                lost_code.extend(cb[i1:i2])
        newc = _squash("".join(new_comments))
        if "".join(cb) == "".join(ca):
            how = "reboundary"  # same characters, other token boundaries (tokens glued or split)
        elif lost_code and newc and all(_squash(t) in newc for t in lost_code):
            how = "into-comment"  # the missing code now sits inside a comment
            swallowed = True
        elif len(ca) < len(cb):
            how = "lost"
        elif len(ca) > len(cb):
            how = "added"
        else:
            how = "altered"
        fails.append(("code-changed", how, f"code tokens differ at #{i}: {cb[i:i + 4]} -> {ca[i:i + 4]}", ftype))
    if mb != ma:
        lost, new = lost_comments[:3], new_comments[:3]
        how = "from-code" if swallowed else "lost" if lost and not new else "added" if new and not lost else "altered"
        marker = (new or lost)[0][:2]
        fails.append(("comment-changed", how, f"comments lost {lost} new {new}", "comment:" + marker))
    if ob != oa:
        lost = sorted((ob - oa).elements())[:5]
        new = sorted((oa - ob).elements())[:5]
        fails.append(("non-blank-ws", "lost" if lost else "added", f"blank characters other than space/tab: lost "
                      f"{lost!r} new {new!r}", "whitespace"))
    return fails


class C14(Check):
    id = "C14"
    level = "exploration"
    rule = (
        "Domain: rules=layout (LT01-LT15) with a layout configuration: pinned slice of the fixture corpus of every "
        "dialect x 6 fixed configurations (leading commas, trailing operators, tab indent, implicit indents, indented "
        "joins/CTEs + trailing_comments=after, line length 40/50/60); generated: fixtures (half mutated, parsable or "
        "not) and G-sql queries with layout noise and comments (also in the middle of clauses) x Hypothesis-drawn configuration (comma / binary / "
        "comparison operator line position, indent unit, tab size, indented_* switches, implicit_indents, "
        "trailing_comments, max_line_length 40-120, LT05/LT09/LT15 options). Oracle: input and output are lexed with "
        "the dialect lexer; texts of tokens that are not whitespace/newline/comment are identical in order; multiset "
        "of comment texts identical; multiset of characters other than space/tab inside whitespace tokens identical "
        "(form feed, NBSP ...); newline tokens are free. Non-trivial: the fix changed the file and either a line "
        "break appeared/disappeared in front of a code token or a comment moved."
    )
    assumptions = ["CRLF counts as a newline; newline tokens may be added/removed/re-spelled freely"]

    def selftest(self):
        t = lambda *xs: [(x, "newline" if x in ("\n", "\r\n") else "whitespace" if x.isspace() else "comment"
                          if x.startswith("--") else "code", "t") for x in xs]
        assert compare(t("a", " ", "b"), t("a", "\n", "  ", "b")) == []
        assert compare(t("a", " ", "b"), t("a", "b"))  == []
        assert compare(t("a", " ", "b"), t("ab"))[0][:2] == ("code-changed", "reboundary")
        assert compare(t("a", ",", "b"), t("a", "b"))[0][:2] == ("code-changed", "lost")
        assert compare(t("a", "--c", "\n"), t("a", "\n"))[0][:2] == ("comment-changed", "lost")
        r = compare(t("a", "--c", "\n", "b"), t("a", "--c b", "\n"))
        assert [x[:2] for x in r] == [("code-changed", "into-comment"), ("comment-changed", "from-code")], r
        r = compare(t("-", " ", "-", "5"), t("--5"))
        assert [x[:2] for x in r] == [("code-changed", "into-comment"), ("comment-changed", "from-code")], r
        assert compare(t("a", "\x0c", "b"), t("a", " ", "b"))[0][0] == "non-blank-ws"
        assert compare(t("a", "\r\n", "b"), t("a", "\n", "b")) == []

    def pinned(self, tier):
        for cfg_i, rc in enumerate(PINNED_CONFIGS):
            per = 2 if tier == "quick" else 8
            for c in fixlib.pinned_slice(tier, ["layout"], per, per, offset=3 + cfg_i):
                c["rule_configs"] = rc
                yield c

    def strategy(self, tier):
        base = fixlib.fix_case(tier=tier, rules=st.just("layout"), gsql_features={"comments": True, "multi_cte": True}, comments_inside=True)
        return st.tuples(base, layout_config()).map(lambda t: dict(t[0], rule_configs=t[1]))

    def examples(self, tier):
        return 42 if tier == "quick" else 1500

    def budget_s(self, tier):
        return 400.0 if tier == "quick" else 1700.0

    def judge(self, case):
        run = fixlib.FixRun(case)
        if run.excluded or not run.changed:
            return run, [], None, None
        before = fixlib.relex(run.sql, run.config)
        after = run.relexed()
        if isinstance(before, Crash) or isinstance(after, Crash):
            run.excluded = "crash(C04):lexer"
            return run, [], None, None
        return run, compare(before[0], after[0]), before[0], after[0]

    def run_case(self, case):
        out = Outcome(labels=fixlib.base_labels(case))
        rc = case.get("rule_configs") or {}
        for k in sorted(rc):
            out.label("cfg:" + k)
        run, fails, before, after = self.judge(case)
        if run.excluded:
            out.excluded = run.excluded
            return out
        if not run.changed:
            out.label("fix-unchanged")
            return out
        out.label("fix-changed")
        if run.pre_structural:
            out.label("input-unparsable")
        sb, sa = shape(before), shape(after)
        if sb[0] != sa[0]:
            out.label("rebroke-line")
            out.nontrivial = True
        if sb[1] != sa[1] and sum(sb[1]):
            out.label("comment-moved")
            out.nontrivial = True
        for kind, how, detail, ftype in fails:
            def still(c, kind=kind):
                _, f, _, _ = self.judge(c)
                return any(x[0] == kind for x in f)

            rule = fixlib.attribute(case, run.fixing_rules(), still)
            out.fail(detail + f" | fixed={run.fixed[:120]!r}", kind=kind, how=how, rule=rule, first=ftype,
                     implicit_indents=(rc.get("indentation") or {}).get("implicit_indents", "forbid"))
        return out


CHECK = C14()
