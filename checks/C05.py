"""C05 No rule fails internally on any parse tree."""
from vlib import gens, lintlib
from vlib.framework import Check, Outcome
from vlib.sf import Crash


class C05(Check):
    id = "C05"
    level = "exploration"
    rule = (
        "Domain: a fixed, seed-independent backbone (fixture slice of every dialect, fixed mutants, fixed generated templates and queries, degenerate files) plus Hypothesis-chosen fixtures (unmutated and with 1-3 drawn "
        "mutation operators), arbitrary text, generated valid sqlite queries with layout noise (DISTINCT enabled), "
        "generated jinja/python/placeholder templates, deep/wide stress inputs x rule selections (all, core, groups, "
        "format set, small sets) x 13 non-default rule/layout option sets x lint and fix mode, through "
        "Linter.lint_string. Oracle: no violation whose description starts 'Unexpected exception', and "
        "BaseRule._log_critical_errors (the swallow point) was never called. Signature = rule + exception type + "
        "innermost sqlfluff frame. Non-trivial: the tree has an unparsable section, or the input was mutated, or a "
        "non-default rule option is set, and at least one rule ran on a tree; distinct by SHA-1."
    )

    def selftest(self):
        from sqlfluff.core.rules.base import BaseRule

        assert hasattr(BaseRule, "_log_critical_errors")

    def pinned(self, tier):
        yield from lintlib.pinned_lint_cases(tier, per_dialect=3, mutants_per_dialect=4, templates=100, salt=5)
        from vlib.lexparse import PINNED_TEXT

        for i, t in enumerate(PINNED_TEXT):  # degenerate files: empty, blank, lone tokens, unterminated quotes ...
            for d in ("ansi", gens.dialects()[i % len(gens.dialects())]):
                yield {"dialect": d, "templater": "raw", "sql": t, "rules": "all", "rule_options": {}, "fix": bool(i % 2),
                       "origin": "pinned-text"}
        if tier == "thorough":
            for i, r in enumerate(gens.rule_cases()):
                if len(r["sql"]) < 600 and r["templater"] in (None, "raw"):
                    yield {"dialect": r["dialect"], "templater": "raw", "sql": r["sql"], "rules": "all",
                           "rule_options": {}, "fix": bool(i % 2), "origin": "rulecase:" + r["rule"]}

    def strategy(self, tier):
        return lintlib.lint_domain(tier)

    def examples(self, tier):
        return 30 if tier == "quick" else 1200

    def run_case(self, case):
        out = Outcome(labels=["templater:" + case.get("templater", "raw"), "fix" if case.get("fix") else "lint"])
        res, cfg, internal = lintlib.lint(case)
        if isinstance(res, Crash):
            out.excluded = "config-rejected" if getattr(res, "config_error", False) else "crash(C04):" + res.type
            return out
        has_tree = res.tree is not None
        if not has_tree:
            out.label("no-tree")
        unparsable = has_tree and any(True for _ in res.tree.iter_unparsables())
        if has_tree and (unparsable or case.get("mutated") or case.get("rule_options")):
            out.nontrivial = True
        if unparsable:
            out.label("has-unparsable")
        if case.get("rule_options"):
            out.label("non-default-options")
        reported = set()
        for ie in internal:
            key = (ie["rule"], ie["exc"], ie["frame"])
            if key in reported:
                continue
            reported.add(key)
            out.fail(f"{ie['rule']}: {ie['exc']}: {ie['msg']}", rule=ie["rule"], exc=ie["exc"], frame=ie["frame"])
        for v in res.violations:
            d = v.desc() or ""
            if d.startswith("Unexpected exception"):
                code = v.rule_code()
                if not any(r == code for r, _, _ in reported):
                    out.fail(f"{code}: {d[:150]}", rule=code, exc="?", frame="?")
                    reported.add((code, "?", "?"))
        return out


CHECK = C05()
