"""C34 Oversized files are skipped, never parsed or modified."""
import collections
import os

from hypothesis import strategies as st

from vlib import projlib as P
from vlib.framework import Check, Outcome

DEFAULT_BYTE_LIMIT = 20000  # documented default of large_file_skip_byte_limit; the char limit defaults to 0 (off)
MB = "é漢\U0001F600ü€"  # 2, 3, 4, 2, 3 bytes in UTF-8

HEADS = {
    # kind -> first line.  clean: no violation at all; fixable: LT01 + CP01, both fixable, parsable;
    # both: the same fixable violations and an unclosed bracket (parse error, nothing may be fixed)
    "clean": "SELECT a FROM t1\n",
    "fixable": "SELECT a  from t1\n",
    "both": "SELECT a  from t1 WHERE (((\n",
}


def measure(text, unit):
    return len(text.encode("utf-8")) if unit == "byte" else len(text)


def build(kind, target, unit, mb=0):
    """Text of exactly `target` bytes / characters: head line, then comment lines of at most 54 characters holding
    `mb` multi-byte characters and ASCII padding.  None when the target is too small."""
    text = HEADS[kind] + "-- " + MB[:mb]
    remaining = target - measure(text, unit) - 1
    if remaining < 0:
        return None
    col = 3 + mb
    parts = [text]
    while remaining > 0:
        if col >= 50 and remaining >= 5:
            parts.append("\n-- ")
            remaining -= 4
            col = 3
        else:
            parts.append("x")
            remaining -= 1
            col += 1
    return "".join(parts) + "\n"


def effective_limits(case, path):
    lim = {"byte": case["root"].get("byte"), "char": case["root"].get("char")}
    if case.get("sub") and path.startswith("sub/"):
        for k in ("byte", "char"):
            if case["sub"].get(k) is not None:
                lim[k] = case["sub"][k]
    lb = DEFAULT_BYTE_LIMIT if lim["byte"] is None else int(lim["byte"])
    lc = 0 if lim["char"] is None else int(lim["char"])
    return lb, lc


def skip_reason(text, lb, lc):
    """The model, from the statement and default_config.cfg: a limit of 0 is off; a file is skipped when its size in
    bytes exceeds the byte limit or its length in characters exceeds the character limit ("larger than": a file of
    exactly the limit is processed).  -> None | "byte" | "char" (char = only the character limit applies)"""
    if lb > 0 and len(text.encode("utf-8")) > lb:
        return "byte"
    if lc > 0 and len(text) > lc:
        return "char"
    return None


def cfg_text(limits, skip_fail=None, root=True):
    lines = ["[sqlfluff]"]
    if root:
        lines += ["dialect = ansi", "encoding = utf-8"]
    if limits.get("byte") is not None:
        lines.append("large_file_skip_byte_limit = %d" % limits["byte"])
    if limits.get("char") is not None:
        lines.append("large_file_skip_char_limit = %d" % limits["char"])
    if skip_fail is not None:
        lines.append("large_file_skip_fail = %s" % skip_fail)
    return "\n".join(lines) + "\n"


@st.composite
def cases(draw, tier):
    small = st.integers(60, 170)
    root = {"byte": draw(st.one_of(st.none(), st.just(0), small, small)),
            "char": draw(st.one_of(st.none(), st.none(), st.just(0), small))}
    sub = None
    if draw(st.integers(0, 2)) == 0:
        sub = {"byte": draw(st.one_of(st.none(), st.just(0), small)), "char": draw(st.one_of(st.none(), st.just(0), small))}
    case = {"root": root, "sub": sub, "skip_fail": draw(st.sampled_from([True, True, False, None])),
            "cmd": draw(st.sampled_from(["lint", "fix"])), "processes": draw(st.sampled_from([1, 2])), "files": []}
    n = draw(st.integers(2, 4))
    big = 0
    for i in range(n):
        path = ("sub/" if sub is not None and draw(st.booleans()) else "") + "q%d.sql" % i
        lb, lc = effective_limits(case, path)
        kind = draw(st.sampled_from(["clean", "fixable", "fixable", "both"]))
        mb = draw(st.integers(0, 5))
        d = draw(st.integers(-2, 2))
        anchors = [(u, l) for u, l in (("byte", lb), ("char", lc)) if l > 0]
        if lb == 0 and big < 1 and draw(st.integers(0, 3)) == 0:
            anchors = [("byte", DEFAULT_BYTE_LIMIT)]  # limit switched off: a file over the default must be processed
        if anchors:
            unit, lim = draw(st.sampled_from(anchors))
            if lim >= 10000:
                big += 1
                if big > 2:
                    unit, lim = "byte", 120
        else:
            unit, lim = "byte", draw(small)
        text = build(kind, lim + d, unit, mb) or build(kind, 80, "byte", 0)
        case["files"].append({"path": path, "kind": kind, "sql": text})
    case["files"].append({"path": "small.sql", "kind": "clean", "sql": "SELECT 1\n"})
    return case


def _grid(root, cmd, processes, unit, skip_fail=True, sub=None, kinds=("fixable", "both", "clean", "fixable", "both")):
    case = {"root": root, "sub": sub, "skip_fail": skip_fail, "cmd": cmd, "processes": processes, "files": []}
    for i, d in enumerate((-2, -1, 0, 1, 2)):
        path = ("sub/" if sub else "") + "q%d.sql" % i
        lb, lc = effective_limits(case, path)
        lim = lb if unit == "byte" else lc
        case["files"].append({"path": path, "kind": kinds[i], "sql": build(kinds[i], lim + d, unit, mb=i + 1)})
    case["files"].append({"path": "small.sql", "kind": "clean", "sql": "SELECT 1\n"})
    return case


class C34(Check):
    id = "C34"
    level = "exploration"
    shrink_fields = ()
    rule = (
        "Projects of 3-6 files whose size is limit-2..limit+2 bytes (or characters) with 0-5 multi-byte characters so "
        "that bytes != characters, content kinds clean / fixable (LT01+CP01) / fixable plus an unclosed bracket; "
        "large_file_skip_byte_limit in {unset = default 20000, 0, 60..170} and large_file_skip_char_limit in {unset, "
        "0, 60..170} in the root .sqlfluff and optionally overridden in sub/.sqlfluff; large_file_skip_fail in {unset, "
        "True, False}; encoding = utf-8. Pinned grid: all five deltas around a byte limit, a character limit and the "
        "default byte limit x lint/fix x processes 1/2. Each case: (a) in-process Linter.lint_paths (serial) for "
        "LintingResult.files_skipped and the record list, (b) `sqlfluff lint --format json` or `sqlfluff fix` with "
        "--processes 1 or 2 as a subprocess with the observer hook (logs Linter.parse_rendered with >=1 variant and "
        "LintedFile._safe_create_replace_file). Model: a file is skipped iff a positive limit is exceeded (strictly). Oracle: a "
        "skipped file has no record, is never parsed or persisted, is byte-identical afterwards, files_skipped counts "
        "it, exit status is 1 iff a processed file has an unsuppressed (lint) / unfixable (fix) violation or "
        "large_file_skip_fail is on and something was skipped; a file at or under the limits has a record with the "
        "violations of its kind and, for fix, is rewritten when fixable. Non-trivial: some file within 2 units of an "
        "active limit whose byte and character sizes differ, or a skipped file."
    )
    assumptions = [
        "files are UTF-8 with LF newlines and encoding = utf-8 is configured, so 'characters' is unambiguous",
        "the skip counter is observable through LintingResult.files_skipped (API) and through the exit status when "
        "large_file_skip_fail is set (CLI); there is no other public counter",
    ]

    def selftest(self):
        assert measure(build("fixable", 100, "byte", 3), "byte") == 100
        assert measure(build("both", 77, "char", 5), "char") == 77
        t = build("clean", 20003, "byte", 2)
        assert len(t.encode()) == 20003 and max(len(l) for l in t.split("\n")) <= 56
        assert build("both", 20, "byte", 0) is None
        assert skip_reason("x" * 10, 10, 0) is None and skip_reason("x" * 11, 10, 0) == "byte"
        assert skip_reason("é" * 5, 9, 0) == "byte" and skip_reason("é" * 5, 10, 4) == "char"
        assert skip_reason("x" * 30000, 0, 0) is None
        assert effective_limits({"root": {"byte": None, "char": 5}, "sub": {"byte": 7, "char": None}}, "sub/a.sql") == (7, 5)
        assert effective_limits({"root": {"byte": None, "char": None}, "sub": None}, "a.sql") == (20000, 0)
        # the content kinds really are what the model assumes
        from sqlfluff.core import Linter
        from vlib.sf import mkcfg

        lnt = Linter(config=mkcfg("ansi"))
        for kind in HEADS:
            text = build(kind, 150, "byte", 4)
            lf = lnt.lint_string(text, fix=True)
            codes = [v.rule_code() for v in lf.get_violations()]
            if kind == "clean":
                assert codes == [], codes
            elif kind == "fixable":
                assert codes and all(v.fixable for v in lf.get_violations()) and "PRS" not in codes, codes
                fixed = lf.fix_string()[0]
                assert fixed != text and not lnt.lint_string(fixed).get_violations()
            else:
                assert "PRS" in codes, codes

    def pinned(self, tier):
        for cmd in ("lint", "fix"):
            for procs in (1, 2):
                yield _grid({"byte": 100, "char": None}, cmd, procs, "byte")
                yield _grid({"byte": 0, "char": 90}, cmd, procs, "char")
        yield _grid({"byte": None, "char": None}, "lint", 2, "byte")
        yield _grid({"byte": None, "char": None}, "fix", 1, "byte", kinds=("fixable", "fixable", "fixable", "fixable", "both"))
        yield _grid({"byte": 0, "char": 0}, "fix", 2, "byte", sub={"byte": 99, "char": None}, skip_fail=False)
        yield _grid({"byte": 150, "char": 0}, "lint", 1, "byte", skip_fail=None, kinds=("clean",) * 5)
        # only clean/fixable content and skip_fail: the exit status is decided by the skip alone
        yield _grid({"byte": 120, "char": None}, "fix", 2, "byte", kinds=("fixable", "clean", "fixable", "fixable", "clean"))
        yield _grid({"byte": 120, "char": None}, "lint", 2, "byte", kinds=("clean",) * 5)

    def strategy(self, tier):
        return cases(tier)

    def examples(self, tier):
        return 4 if tier == "quick" else 130

    def budget_s(self, tier):
        return 300.0 if tier == "quick" else 1700.0

    # ------------------------------------------------------------------------------------------ one case

    def run_case(self, case):
        out = self._run(case)
        out.labels = sorted(set(out.labels))  # one count per case and class
        return out

    def _run(self, case):
        out = Outcome()
        cmd, nproc = case["cmd"], int(case["processes"])
        skip_fail = bool(case.get("skip_fail"))
        files = {".sqlfluff": cfg_text(case["root"], case.get("skip_fail"))}
        if case.get("sub"):
            files["sub/.sqlfluff"] = cfg_text(case["sub"], root=False)
        model = {}
        for f in case["files"]:
            files[f["path"]] = f["sql"]
            lb, lc = effective_limits(case, f["path"])
            reason = skip_reason(f["sql"], lb, lc)
            nb, nc = len(f["sql"].encode("utf-8")), len(f["sql"])
            near = any(l > 0 and abs(n - l) <= 2 for l, n in ((lb, nb), (lc, nc)))
            model[f["path"]] = {"skip": reason, "kind": f["kind"], "near": near, "mb": nb != nc}
            if near and nb != nc:
                out.nontrivial = True
            if reason:
                out.nontrivial = True
                out.label("skipped-by:" + reason)
            if near:
                out.label("near-limit:" + ("skipped" if reason else "processed"))
            if lb >= 10000 and nb >= 10000:
                out.label("default-limit-sized-file")
        out.label("cmd:" + cmd, "N=%d" % nproc, "skip_fail:%s" % case.get("skip_fail"))
        if case.get("sub"):
            out.label("nested-config")
        skipped = sorted(p for p, m in model.items() if m["skip"])
        char_only = [p for p in skipped if model[p]["skip"] == "char"]
        processed = sorted(p for p, m in model.items() if not m["skip"])

        def lim_of(path):
            return model[path]["skip"] or "none"

        root = P.fresh_dir("c34-")
        logdir = P.fresh_dir("c34log-")
        try:
            P.write_tree(root, files)
            before = P.read_tree(root)

            # ---- (a) API, serial: the skip counter
            from sqlfluff.core import FluffConfig, Linter
            from vlib.sf import Crash, guard

            def api():
                cfg = FluffConfig.from_path(root)
                return Linter(config=cfg).lint_paths((root,), processes=1)

            res = guard(api)
            if isinstance(res, Crash):
                out.excluded = "crash(C04):%s" % res.type
                return out
            api_recs = {os.path.relpath(r["filepath"], root): r for r in res.as_records()}
            if res.files_skipped != len(skipped):
                if char_only and res.files_skipped == len(skipped) - len(char_only):
                    out.fail("API files_skipped=%d, model %d (%s); the %d files over the character limit only are not "
                             "counted" % (res.files_skipped, len(skipped), skipped, len(char_only)),
                             clause="skip-count", limit="char", via="api")
                else:
                    out.fail("API files_skipped=%d, model %d (%s)" % (res.files_skipped, len(skipped), skipped),
                             clause="skip-count", limit="byte", via="api")
            self._records(out, api_recs, model, "api")

            # ---- (b) CLI
            log = os.path.join(logdir, "ev.log")
            if cmd == "lint":
                args = ["lint", "--format", "json", "--processes", str(nproc), "."]
            else:
                args = ["fix", "--processes", str(nproc), "."]
            rc, so, se = P.run_cli(args, root, delays={}, schedlog=log)
            events = P.read_schedlog(log)
            if any(e[0] == "hook-error" for e in events):
                raise RuntimeError("observer hook failed: %r" % events[:3])
            if P.is_traceback(se) or rc not in (0, 1):
                out.excluded = "crash(C04): rc=%s" % rc
                return out
            parsed = collections.Counter(os.path.normpath(w) for e, _, w in events if e == "parse")
            persisted = collections.Counter(os.path.normpath(w) for e, _, w in events if e == "persist")
            after = P.read_tree(root)
            for p in skipped:
                if parsed[p]:
                    out.fail("%s is over its limit (%s) but was lexed/parsed" % (p, model[p]["skip"]),
                             clause="skipped-parsed", limit=lim_of(p), cmd=cmd)
                if persisted[p] or after.get(p) != before.get(p):
                    out.fail("%s is over its limit (%s) but was rewritten" % (p, model[p]["skip"]),
                             clause="skipped-rewritten", limit=lim_of(p), cmd=cmd)
            for p in processed:
                if not parsed[p]:
                    out.fail("%s is within its limits but was never parsed (%s, N=%d)" % (p, cmd, nproc),
                             clause="unskipped-not-parsed", cmd=cmd)
            if cmd == "lint":
                recs = P.json_records(so)
                if recs is None:
                    out.excluded = "crash(C04): lint output is not JSON"
                    return out
                self._records(out, {os.path.normpath(r["filepath"]): r for r in recs}, model, "cli")
                if after != before:
                    out.fail("lint changed files", clause="lint-wrote")
                bad = [p for p in processed if model[p]["kind"] != "clean"]
            else:
                for p in processed:
                    changed = after.get(p) != before.get(p)
                    if model[p]["kind"] == "fixable" and not changed:
                        out.fail("%s is within its limits and fixable but fix left it alone" % p,
                                 clause="unskipped-not-fixed", cmd=cmd)
                    if model[p]["kind"] != "fixable" and changed:
                        out.fail("%s (%s) was rewritten by fix" % (p, model[p]["kind"]), clause="unexpected-rewrite")
                    if changed:
                        out.label("fix-rewrote-a-processed-file")
                bad = [p for p in processed if model[p]["kind"] == "both"]
            # exit status
            exp = 1 if bad or (skip_fail and skipped) else 0
            exp_known = 1 if bad or (skip_fail and len(skipped) > len(char_only)) else 0
            if skip_fail and skipped and not bad:
                out.label("exit-decided-by-skip")
            if rc != exp:
                if char_only and rc == exp_known:
                    out.fail("exit status %d, model %d: files over the character limit only (%s) do not count as "
                             "skipped for large_file_skip_fail" % (rc, exp, char_only),
                             clause="skip-fail-exit", limit="char", cmd=cmd)
                else:
                    out.fail("exit status %d, model %d (skipped %s, violating processed files %s, skip_fail=%s, N=%d)"
                             % (rc, exp, skipped, bad, skip_fail, nproc), clause="exit-status", cmd=cmd,
                             limit="byte" if skipped else "none")
            return out
        finally:
            P.rmtree(root)
            P.rmtree(logdir)

    @staticmethod
    def _records(out, recs, model, via):
        for p, m in model.items():
            r = recs.get(p)
            if m["skip"]:
                if r is None:
                    continue
                if r["violations"]:
                    out.fail("%s is over its limit (%s) but has violations %s" % (p, m["skip"], [v["code"] for v in r["violations"]][:6]),
                             clause="skipped-linted", limit=m["skip"], via=via)
                else:
                    out.fail("%s is over its limit (%s) but is reported as a linted file without violations" % (p, m["skip"]),
                             clause="skipped-has-record", limit=m["skip"], via=via)
            else:
                if r is None:
                    out.fail("%s is within its limits but has no record" % p, clause="unskipped-missing-record", via=via)
                    continue
                codes = [v["code"] for v in r["violations"]]
                ok = {"clean": not codes, "fixable": bool(codes) and "PRS" not in codes, "both": "PRS" in codes}[m["kind"]]
                if not ok:
                    out.fail("%s (%s, within limits) has violations %s" % (p, m["kind"], codes[:8]),
                             clause="unskipped-wrong-violations", kind=m["kind"], via=via)
        for p in recs:
            if p not in model:
                out.fail("record for unknown file %s" % p, clause="foreign-record", via=via)


CHECK = C34()
