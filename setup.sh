#!/bin/bash
# Offline setup: make sure hypothesis (and atheris, optional) are importable by /venv/bin/python.
HERE="$(cd "$(dirname "$0")" && pwd)"
PY="${VERIF_PY:-/venv/bin/python}"
export PIP_NO_INDEX=1
mkdir -p "$HERE/.deps"
PYTHONPATH="$HERE/.deps" "$PY" -c 'import hypothesis' 2>/dev/null || \
  "$PY" -m pip install -q --no-index --find-links /opt/veriftools/wheels --target "$HERE/.deps" hypothesis || exit 1
PYTHONPATH="$HERE/.deps" "$PY" -c 'import atheris' 2>/dev/null || \
  "$PY" -m pip install -q --no-index --find-links /opt/veriftools/wheels --target "$HERE/.deps" atheris || echo "atheris unavailable (optional)"
PYTHONPATH="/repo/src:$HERE/.deps:$HERE" "$PY" -c 'import hypothesis, sqlfluff, vlib.framework; print("setup ok", hypothesis.__version__, sqlfluff.__version__)'
